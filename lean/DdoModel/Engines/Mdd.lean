import DdoModel.Proto
import DdoModel.Mdd
import DdoModel.Pooled
import DdoModel.Families
import DdoModel.Engines.Store
/-! Driver engine `mdd`: one compilation of a diagram (after an unobserved history on the same
    object).  Agreement = every order-independent observable of the implementation equals the
    model's, for one of the (at most two) admissible resolutions of the exact-best-path tie.
    `phi` = the property predicates of C06 / C07 / C08 / C12 / C13, evaluated on the
    implementation's outputs against the exact value-to-go of the instance (`Fam.H`). -/
namespace Ddo.Engines
open Ddo.Proto

def parseFam (t : List String) : Option (Fam × List String) := do
  match t with
  | "T" :: n :: b :: d :: e :: rm :: ub :: rk :: dm :: sl :: iv :: rest =>
    let n ← nat? n; let b ← nat? b; let d ← nat? d
    let ne := n * b * d
    let ents ← ints? (rest.take (2 * ne))
    let rec pairs : List Int → List (Option (Nat × Int))
      | x :: c :: r => (if x < 0 then none else some (x.toNat, c)) :: pairs r
      | _ => []
    let imps := (rest.drop (2 * ne)).take (n * b)
    if ents.length ≠ 2 * ne ∨ imps.length ≠ n * b then none else
    let rm ← nat? rm; let ub ← nat? ub; let rk ← nat? rk; let dm ← nat? dm; let sl ← int? sl; let iv ← int? iv
    let T : TableDP := { n := n, B := b, D := d, embedDepth := e == "1", relaxMode := rm, rubMode := ub, rankMode := rk, domMode := dm, slack := sl, initVal := iv, tab := pairs ents, imp := imps.map (· == "1") }
    pure (.table T, rest.drop (2 * ne + n * b))
  | kl :: n :: cap :: rub :: dom :: rest =>
    if kl != "K" && kl != "L" then none else
    let n ← nat? n
    let ps ← ints? (rest.take n)
    let ws ← ints? ((rest.drop n).take n)
    if ps.length ≠ n ∨ ws.length ≠ n then none else
    let cap ← nat? cap; let rub ← nat? rub; let dom ← nat? dom
    pure (.knap { n := n, cap := cap, profit := ps, weight := ws.map Int.toNat, rubMode := rub, domMode := dom, free := kl == "L" }, rest.drop (2 * n))
  | _ => none

structure Req where
  kind : Nat
  ctype : Nat
  width : Nat
  lb : Int
  root : SubP Int
  useCache : Bool
  cache : List (Int × Nat × Thr)
  stopAt : Option Nat

def parseDecs : List Int → List Dec
  | v :: x :: r => ⟨v.toNat, x⟩ :: parseDecs r
  | _ => []

def parseReq (t : List String) : Option Req := do
  let xs ← ints? t
  match xs with
  | kind :: ctype :: width :: lb :: rs :: rv :: rd :: np :: rest =>
    let np := np.toNat
    let path := parseDecs (rest.take (2 * np))
    let rest := rest.drop (2 * np)
    match rest with
    | uc :: nc :: rest =>
      let nc := nc.toNat
      let rec cents : Nat → List Int → List (Int × Nat × Thr)
        | 0, _ => []
        | k + 1, s :: d :: v :: e :: r => (s, d.toNat, ⟨v, e == 1⟩) :: cents k r
        | _, _ => []
      let cache := cents nc rest
      let sa := (rest.drop (4 * nc)).head?.getD (-1)
      pure { kind := kind.toNat, ctype := ctype.toNat, width := width.toNat, lb := lb,
             root := { state := rs, value := rv, path := path, ub := iMax, depth := rd.toNat },
             useCache := uc == 1, cache := cache, stopAt := if sa < 0 then none else some sa.toNat }
    | _ => none
  | _ => none

def ctypeOf : Nat → CompType | 0 => .exact | 1 => .relaxed | _ => .restricted

def cfgOf (fam : Fam) (r : Req) : Cfg Int Int :=
  { P := fam.problem, R := fam.relaxation, rank := fam.ranking, dom := fam.domRule, useCache := r.useCache,
    kind := if r.kind == 0 then .lel else .frontier, ctype := ctypeOf r.ctype, width := r.width, root := r.root, lb := r.lb }

def cacheOf (fam : Fam) (r : Req) : Cache Int :=
  r.cache.foldl (fun c (s, d, t) => (c.update s d t).getD c) (Cache.init fam.problem.nbVars)

def showCall : Call Int → String
  | .nextVar d st ans => s!"nv {d} {match ans with | some v => toString v | none => "-1"}" ++ (if st.isEmpty then "" else " " ++ join ((st.mergeSort (fun a b => a ≤ b)).map toString))
  | .domain v s => s!"dm {v} {s}"
  | .trans s d => s!"tr {s} {d.var} {d.val}"
  | .cost s t d => s!"co {s} {t} {d.var} {d.val}"
  | .merge st r => s!"mg {r}" ++ (if st.isEmpty then "" else " " ++ join (st.map toString))
  | .relax s t m d c => s!"rx {s} {t} {m} {d.var} {d.val} {c}"
  | .rub s => s!"rb {s}"
  | .impacted v s => s!"im {v} {s}"

def sortStr (l : List String) : List String := l.mergeSort (fun a b => !(b < a))

/-- the order-independent observables of a model result, as strings comparable with the implementation's -/
def showResult (r : Result Int) : String × List String × List String × String :=
  let status := s!"ok {b2s r.isExact} {optInt r.bestValue} {optInt r.bestExactValue} {b2s r.isExact}"
  let cs := sortStr (r.cutset.map (fun c => s!"{c.state} {c.depth} {c.value} {c.ub}"))
  let ups := sortStr (r.cacheUpdates.map (fun (s, d, v, e) => s!"{s} {d} {v} {b2s e}"))
  (status, cs, ups, join (r.expanded.map toString))

/-- decisions of a printed path (`e` = empty) -/
def parsePath (t : List String) : Option (List Dec) :=
  if t == ["e"] then some [] else (ints? t).map parseDecs

def sortDecs (l : List Dec) : List Dec := l.mergeSort (fun a b => a.var ≤ b.var)

structure ImplOut where
  status : List String
  bestSol : Option (List Dec)
  bestExactSol : Option (List Dec)
  cutset : List (Int × Nat × Int × Int × List Dec)   -- state depth value ub path
  ups : List String
  expanded : List Nat
  polls : Nat
  ndom : Nat
  log : List (List String)

def parseImpl (i : List String) : Option ImplOut := do
  match splitAt "|" i with
  | [st, bs, bes, cs, ups, ex, polls, log] =>
    let optPath := fun (t : List String) => if t == ["none"] ∨ t == [] then some none else (parsePath t).map some
    let csE ← (splitAt ";" cs).filter (· ≠ []) |>.mapM (fun e =>
      match splitAt ":" e with
      | [hd, p] => do
        let h ← ints? hd
        match h with
        | [s, d, v, ub] => do pure (s, d.toNat, v, ub, ← parsePath p)
        | _ => none
      | _ => none)
    pure { status := st, bestSol := ← optPath bs, bestExactSol := ← optPath bes, cutset := csE,
           ups := (splitAt ";" ups).filter (· ≠ []) |>.map join, expanded := (← ints? ex).map Int.toNat,
           polls := (polls.head?.bind nat?).getD 0, ndom := ((polls.drop 1).head?.bind nat?).getD 0, log := (splitAt ";" log).filter (· ≠ []) }
  | _ => none

/-- replay of a complete decision list from the problem root; `some (state, value, depth)` -/
def replay (P : Problem Int) (p : List Dec) : Option (Int × Int × Nat) := evalFrom P 0 P.init P.initVal (sortDecs p)

/-- replay of a *prefix* with default completion up to (at most) depth `upTo`: stops as soon as the decisions are used up and
    the depth `upTo` is reached -/
def replaySkipTo (P : Problem Int) (upTo : Nat) (p : List Dec) : Option (Int × Int × Nat) :=
  let rec go : Nat → Nat → Int → Int → List Dec → Option (Int × Int × Nat)
    | 0, depth, s, v, ds => if ds.isEmpty then some (s, v, depth) else none
    | fuel + 1, depth, s, v, ds =>
      if ds.isEmpty && depth ≥ upTo then some (s, v, depth) else
      match P.nextVar depth [s] with
      | none => if ds.isEmpty then some (s, v, depth) else none
      | some x =>
        match ds with
        | d :: rest =>
          if d.var = x then
            (if (P.domain x s).contains d.val then go fuel (depth + 1) (P.trans s d) (v + P.cost s (P.trans s d) d) rest else none)
          else if P.impacted x s then none else go fuel (depth + 1) s v ds
        | [] => if P.impacted x s then none else go fuel (depth + 1) s v []
  go (P.nbVars + 1) 0 P.init P.initVal (sortDecs p)

def eLt (lb : Int) (x : EInt) : Bool := match x with | none => false | some o => decide (o > lb)

/-- a solution: replays, passes through the root sub-problem, reaches a terminal state, has value `w` -/
def isCompletion (P : Problem Int) (root : SubP Int) (p : List Dec) (w : Int) (pooled : Bool := false) : Bool :=
  let sp := sortDecs p
  if pooled then
    -- default-completed replay: the decisions of the root path are a prefix (as a set of variables < root.depth)
    (match replaySkipTo P root.depth (sp.filter (fun d => d.var < root.depth)) with
     | some (s, v, d) => s == root.state && v == root.value && d == root.depth
     | none => false) &&
    (match replaySkipTo P P.nbVars sp with
     | some (s, v, d) => v == w && (P.nextVar d [s]).isNone
     | none => false)
  else
  (match evalFrom P 0 P.init P.initVal (sp.take root.depth) with
   | some (s, v, d) => s == root.state && v == root.value && d == root.depth
   | none => false) &&
  (match evalFrom P 0 P.init P.initVal sp with
   | some (s, v, d) => v == w && (P.nextVar d [s]).isNone
   | none => false)

/-- C12: the callback protocol on the chronological log of the implementation -/
def phiProtocol (fam : Fam) (rootDepth : Nat) (log : List (List String)) : Bool × String :=
  let P := fam.problem
  let rec go (curVar : Option Nat) (layerStates : List Int) (lastMerge : Option (Int × List Int)) (expectDepth : Nat)
      (prev : List String) : List (List String) → Bool × String
    | [] => (true, "")
    | e :: rest =>
      match e with
      | "nv" :: d :: ans :: sts =>
        match nat? d, int? ans, ints? sts with
        | some d, some ans, some sts =>
          if d ≠ expectDepth then (false, s!"next_variable called with depth {d}, expected {expectDepth}")
          else go (if ans < 0 then none else some ans.toNat) sts none (expectDepth + 1) e rest
        | _, _, _ => (false, "unreadable nv")
      | ["dm", v, s] =>
        match nat? v, int? s with
        | some v, some s =>
          if some v ≠ curVar then (false, s!"domain enumerated for variable {v}, not the one selected for the layer")
          else if !(layerStates.contains s) then (false, s!"domain enumerated for state {s} which is not in the layer")
          else go curVar layerStates lastMerge expectDepth e rest
        | _, _ => (false, "unreadable dm")
      | ["tr", _, _, _] => go curVar layerStates lastMerge expectDepth e rest
      | ["co", s, t, v, x] =>
        match int? s, int? t, nat? v, int? x with
        | some s, some t, some v, some x =>
          if prev != ["tr", toString s, toString v, toString x] then (false, "transition_cost not preceded by the transition on the same pair")
          else if P.trans s ⟨v, x⟩ ≠ t then (false, "transition_cost: dst is not transition(src, d)")
          else if !((P.domain v s).contains x) then (false, "transition_cost: decision outside the domain")
          else if some v ≠ curVar then (false, "transition_cost: wrong variable")
          else go curVar layerStates lastMerge expectDepth e rest
        | _, _, _, _ => (false, "unreadable co")
      | "mg" :: r :: sts =>
        match int? r, ints? sts with
        | some r, some sts =>
          if sts.length < 2 then (false, "merge over fewer than two states")
          else go curVar (r :: layerStates) (some (r, sts)) expectDepth e rest
        | _, _ => (false, "unreadable mg")
      | ["rx", s, t, m, v, x, c] =>
        match int? s, int? t, int? m, nat? v, int? x, int? c with
        | some s, some t, some m, some v, some x, some c =>
          match lastMerge with
          | none => (false, "relax without a preceding merge")
          | some (r, sts) =>
            if m ≠ r then (false, "relax: merged is not the state just returned by merge")
            else if !(sts.contains t) then (false, "relax: dst is not among the merged states")
            else if P.trans s ⟨v, x⟩ ≠ t then (false, "relax: dst is not transition(src, d)")
            else if !((P.domain v s).contains x) then (false, "relax: decision outside the domain of src")
            else if P.cost s t ⟨v, x⟩ ≠ c then (false, "relax: cost is not the current cost of the arc")
            else go curVar layerStates lastMerge expectDepth e rest
        | _, _, _, _, _, _ => (false, "unreadable rx")
      | _ => go curVar layerStates lastMerge expectDepth e rest
  go none [] none rootDepth [] log

def allImpacted (fam : Fam) : Bool :=
  match fam with
  | .table t => t.imp.all id
  | .knap k => !k.free

def mddEngine (c i : List String) : Option Res := do
  match splitAt "|" c with
  | famT :: reqT :: histT =>
    let (fam, _) ← parseFam famT
    let req ← parseReq reqT
    let _hist := histT   -- the history only exists on the implementation side: the model is a function of the input
    let io ← parseImpl i
    let P := fam.problem
    let cfg := cfgOf fam req
    let (oc, r1, r2, mlogRaw, mpolls, mndom) :=
      if req.kind ≥ 2 then
        let (oc, r1, r2, pd) := compileP cfg (cacheOf fam req) (DomStore.init P.nbVars) 0 req.stopAt
        (oc, r1, r2, pd.log, pd.polls, pd.ndom)
      else
        let (oc, r1, r2, dd) := compile cfg (cacheOf fam req) (DomStore.init P.nbVars) 0 req.stopAt
        (oc, r1, r2, dd.log, dd.polls, dd.ndom)
    let mlog := sortStr (mlogRaw.map showCall)
    let ilog := sortStr (io.log.map join)
    -- agreement (not for the coarse ranking: the kept / merged split then depends on the hash order,
    -- DESIGN.md §4 — only phi is evaluated)
    let coarse := match fam with | .table t => t.rankMode != 0 | .knap _ => false
    let agreeOne := fun (r : Result Int) =>
      let (st, cs, ups, ex) := showResult r
      join io.status == st && sortStr (io.cutset.map (fun (s, d, v, ub, _) => s!"{s} {d} {v} {ub}")) == cs
        && sortStr io.ups == ups && join (io.expanded.map toString) == ex
    let agree := coarse ||
      ((match oc with
       | .ok => (agreeOne r1 || (match r2 with | some r => agreeOne r | none => false))
       | .cutoff => io.status == ["cutoff"]
       | .crash => io.status == ["panic"])
      && io.polls == mpolls && io.ndom == mndom && (oc != .ok || mlog == ilog))
    -- phi
    let root := req.root
    let optN : EInt := (fam.H root.depth root.state).addI root.value
    let isolated := req.cache.isEmpty || !req.useCache
    let fails : List String := Id.run do
      let mut f : List String := []
      match io.status with
      | ["ok", ce, bv, bev, ie] =>
        let bv := bv.toInt?; let bev := bev.toInt?
        let isExact := ce == "1"
        if ce != ie then f := "C06:Completion.is_exact differs from is_exact()" :: f
        -- feasibility of what is reported as exact
        match bev, io.bestExactSol with
        | some w, some p =>
          if !(isCompletion P root p w (req.kind == 2)) then f := ((if req.ctype == 1 then "C06" else "C07") ++ ":best exact solution is not a feasible completion with the reported value") :: f
          if isolated && !(eLt (w - 1) optN) then f := ((if req.ctype == 1 then "C06" else "C07") ++ ":best exact value above the sub-problem optimum") :: f
        | some _, none => f := "C06:best exact value without solution" :: f
        | none, some _ => f := "C06:best exact solution without value" :: f
        | none, none => pure ()
        if isolated then
          if req.ctype == 1 then
            -- C06
            if eLt req.lb optN then
              match bv, optN with
              | some b, some o => if b < o then f := "C06:relaxed best value below the optimum of the sub-problem" :: f
              | none, some _ => f := "C06:relaxed diagram reports no value although a completion beats the incumbent" :: f
              | _, _ => pure ()
              if isExact && bev != optN then f := "C06:diagram claims exactness but its best exact value is not the sub-problem optimum" :: f
            -- C08
            if !isExact then
              for (s, d, v, ub, p) in io.cutset do
                match (if req.kind == 2 then replaySkipTo P d p else replay P p) with
                | some (s', v', d') => if s' != s || v' != v || d' != d then f := "C08:(i) cut-set node is not reached by its path with its value and depth" :: f
                | none => f := "C08:(i) cut-set path is not feasible" :: f
                if d ≤ root.depth then
                  f := (if req.kind == 2 && !(allImpacted fam) then
                          "C08:(ii)-pooled-long-arcs the root of a pooled diagram is handed out by its own cut-set (a child of the root lingered in the pool and was merged, recycled or reached by a relaxed arc)"
                        else "C08:(ii) cut-set node not strictly deeper than the root of the diagram") :: f
                let phiC : EInt := (fam.H d s).addI v
                -- (iii) is about diagrams that received no dominance verdict: a child pruned in favour of a
                -- dominator of the same layer is (soundly) missing from the local bound (DESIGN.md §6 C08)
                if io.ndom == 0 && eLt req.lb phiC && eLt ub phiC then f := "C08:(iii) cut-set upper bound below the best completion through the node" :: f
              let bk := match bev with | some w => max req.lb w | none => req.lb
              if eLt bk optN then
                let covered := io.cutset.any (fun (s, d, v, _, _) => match (fam.H d s).addI v, optN with
                  | some x, some o => decide (x ≥ o) | _, _ => false)
                if !covered then f := "C08:(iv) the cut-set does not cover the best completion of the root sub-problem" :: f
          else
            -- C07
            match bv, io.bestSol with
            | some w, some p =>
              if !(isCompletion P root p w (req.kind == 2)) then f := "C07:best solution of a restricted / exact diagram is not a feasible completion with the reported value" :: f
              if !(eLt (w - 1) optN) then f := "C07:restricted / exact best value above the optimum" :: f
            | some _, none => f := "C07:value without solution" :: f
            | _, _ => pure ()
            if eLt req.lb optN && (isExact || req.ctype == 0) && bv != optN then
              f := "C07:exact (or exact-claiming restricted) diagram does not report the sub-problem optimum" :: f
        -- C13
        if allImpacted fam && req.ctype != 0 then
          let bad := (io.expanded.zipIdx).any (fun (n, idx) => n > req.width && (req.ctype == 2 || idx ≥ 2))
          if bad then f := "C13:a layer has more than max_width states expanded" :: f
      | ["qpanic"] =>
        -- the compilation ended normally but best_solution / best_exact_solution / drain_cutset panicked
        f := [(if req.ctype == 1 then "C06" else "C07") ++ ":a query on a normally compiled diagram panics (best_solution / best_exact_solution / drain_cutset)",
              "C08:a query on a normally compiled diagram panics (best_solution / best_exact_solution / drain_cutset)",
              "C01:a query on a normally compiled diagram panics", "C03:a query on a normally compiled diagram panics"] ++ f
      | _ => pure ()
      -- C12
      let (okP, why) := phiProtocol fam root.depth io.log
      if !okP then f := ("C12:" ++ why) :: f
      -- C15: with long arcs the pooled diagram must meet the same value / exactness / coverage clauses ((ii) is the open finding D5)
      if req.kind == 2 && !(allImpacted fam) then
        f := f ++ (f.filter (fun s => (s.startsWith "C06:" || s.startsWith "C07:" || s.startsWith "C08:") && !(s.startsWith "C08:(ii)"))).map
          (fun s => "C15:long arcs: " ++ s)
      -- C10, sentence 1 at diagram level: with an admissible rule (fresh store) the value clauses of C06 - C08 still hold
      if fam.domRule.isSome then
        f := f ++ (f.filter (fun s => s.startsWith "C06:relaxed" || s.startsWith "C07:exact" || s.startsWith "C07:restricted" || s.startsWith "C08:(iv)")).map
          (fun s => "C10:with the dominance rule enabled: " ++ s)
      return f
    let note := if fails.isEmpty then "" else join (fails.map (fun s => "F:" ++ (s.splitOn ":").head! ++ " [" ++ s ++ "]"))
    let ms := match oc with
      | .ok => (showResult r1).1 ++ (match r2 with | some r => " / alt " ++ (showResult r).1 | none => "")
      | .cutoff => "cutoff"
      | .crash => "panic"
    -- which observables differ (relative to the first admissible result): lets each property look at its own observables
    let dtoks := if agree then "" else
      (let (st, cs, ups, ex) := showResult r1
       let ds : List String :=
         (if oc == .ok && join io.status != st then ["D:status"] else []) ++
         (if oc == .cutoff && io.status != ["cutoff"] then ["D:status"] else []) ++
         (if oc == .crash && io.status != ["panic"] then ["D:status"] else []) ++
         (if oc == .ok && sortStr (io.cutset.map (fun (s, d, v, ub, _) => s!"{s} {d} {v} {ub}")) != cs then ["D:cutset"] else []) ++
         (if oc == .ok && sortStr io.ups != ups then ["D:ups"] else []) ++
         (if oc == .ok && join (io.expanded.map toString) != ex then ["D:expanded"] else []) ++
         (if io.polls != mpolls then ["D:polls"] else []) ++
         (if io.ndom != mndom then ["D:ndom"] else []) ++
         (if oc == .ok && mlog != ilog then ["D:log"] else [])
       " " ++ join (if ds.isEmpty then ["D:status"] else ds))
    let detail := if agree then "" else
      (let (_, cs, ups, ex) := showResult r1
       s!" || cutset {cs} || ups {ups} || expanded {ex}" ++
       (match r2 with | some r => (let (_, cs, ups, _) := showResult r; s!" || ALT cutset {cs} || ups {ups}") | none => "") ++
       (if mlog == ilog then "" else s!" || LOG DIFFERS: model-only {mlog.filter (fun x => !ilog.contains x)} impl-only {ilog.filter (fun x => !mlog.contains x)}"))
    pure { agree := agree, phi := fails.isEmpty, model := ms ++ s!" polls {mpolls}" ++ detail, note := note ++ dtoks }
  | _ => none

end Ddo.Engines
