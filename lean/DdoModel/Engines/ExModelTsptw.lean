import DdoModel.Proto
import DdoModel.Engines.Store
import DdoModel.Examples.TsptwDp
/-! Family `tsptw` of the driver engine `exmodel` (C16) — `TsptwDp.lean`; statements in `TsptwModel.lean`.
    `agree` = every event (the integers the reader built, variable order, domains, transitions, costs, `is_impacted_by`,
    bounds, merges in the order given, relaxed costs, ranking, width, the dominance rule; panics included) is what the model
    says;
    `phi` = pointwise, by exhaustive enumeration over the remaining steps with the model's own domains, transitions and costs
    (on the states `validB` accepts):
    * `rub`: the bound THE CODE returned for the state (`-inf` = `isize::MIN`) dominates its value-to-go (`RubOk`);
    * `rx`: for the merged-away state `u`, the merged state `m` THE CODE returned (same depth) and the relaxed cost `r` THE
      CODE returned for an arc of cost `c` into `u`: `MergeOk` — see `TsptwE.mergeClause` for the form that is evaluated;
    * `pv`: value of the walk prefix + value-to-go of the state reached = minus the earliest end of a tour, by the independent
      specification `Tsptw.lean` (`Tsptw.finish` over all orders of the other cities), among the tours that extend the
      prefix: the DP model is exact;
    * `dm`: a dominance verdict between two exact nodes (single position, fixed time, no optional city, value = minus the
      time) of one depth with the same key is admissible: the dominated one has no better completion.
    Instances outside the domain of the example (triangle inequality, zero diagonal, closed windows) are mirrored all the
    same (`agree`), their `phi` is `true` by definition (the violations are counted in the model text). -/
namespace Ddo.Engines
open Ddo Ddo.Proto Ddo.Examples

namespace TsptwE
open Ddo.Examples.TsptwModel

def nats? (ts : List String) : Option (List Nat) := ts.mapM nat?

def st? (ts : List String) : Option St :=
  match splitAt "/" ts with
  | [[d], p, e, must, y] => do
    let depth ← nat? d
    let pos ← (match p with
      | ["n", i] => (nat? i).map Pos.node
      | "v" :: c => (nats? c).map Pos.virt
      | _ => none)
    let el ← (match e with
      | ["f", t] => (nat? t).map El.fixed
      | ["z", a, b] => do let a ← nat? a; let b ← nat? b; pure (El.fuzzy a b)
      | _ => none)
    let must ← nats? must
    let maybe ← (match y with
      | ["-"] => some none
      | "s" :: ys => (nats? ys).map some
      | _ => none)
    pure { pos := pos, el := el, must := must, maybe := maybe, depth := depth }
  | _ => none

def nl (l : List Nat) : List String := l.map toString
def showSt (s : St) : String :=
  let p := match s.pos with | .node i => ["n", toString i] | .virt c => "v" :: nl c
  let e := match s.el with | .fixed t => ["f", toString t] | .fuzzy a b => ["z", toString a, toString b]
  let y := match s.maybe with | none => ["-"] | some ys => "s" :: nl ys
  join ([toString s.depth, "/"] ++ p ++ ["/"] ++ e ++ ["/"] ++ nl s.must ++ ["/"] ++ y)
def showOrd (o : Ordering) : String := match o with | .lt => "lt" | .eq => "eq" | .gt => "gt"
def showOI (o : Option Int) : String := match o with | some v => toString v | none => "panic"
def showOS (o : Option St) : String := match o with | some s => showSt s | none => "panic"
def showE (o : EInt) : String := match o with | some v => toString v | none => "-inf"
def showRub (o : Option (Option Int)) : String := match o with | none => "panic" | some r => showE r
def ints (l : List Int) : String := join (l.map toString)

/-- checks one event against the model; `none` = unreadable, `some (ok, what the model says)` -/
def checkEvent (T : Tab) (e : List String) : Option (Bool × String) :=
  let P := problem T
  match splitAt ":" e with
  | [["nv", k]] => some (k == toString P.nbVars, toString P.nbVars)
  | [["inst", n], d, tw] =>
    let md := join (nl T.d.flatten)
    let mt := join (T.tw.flatMap fun (a, b) => [toString a, toString b])
    some (n == toString T.n && join d == md && join tw == mt, s!"{T.n} : {md} : {mt}")
  | [("ord" :: ts)] =>
    let want := (List.range (T.n + 2)).map (fun d => match P.nextVar d [P.init] with | some v => toString v | none => "n")
    some (ts == want, join want)
  | ["init" :: s, [v]] =>
    let m := showSt P.init
    some (join s == m && v == toString P.initVal, s!"{m} : {P.initVal}")
  | ["rub" :: s, [r]] => do
    let s ← st? s
    let m := showRub (rub? T s)
    pure (r == m, m)
  | ["pv" :: s, [v], decs] => do
    -- the value of a walk prefix: replay of its decisions (variables 0, 1, …) from the root
    let s ← st? s; let v ← int? v; let vals ← ints? decs
    let ds := (List.range vals.length).zipWith (fun (k : Nat) (x : Int) => (⟨k, x⟩ : Dec)) vals
    match evalFrom P 0 P.init P.initVal ds with
    | some (s2, v2, _) => pure (s2 == s && v2 == v, s!"{showSt s2} : {v2}")
    | none => pure (false, "not a path of the model")
  | ["dom" :: s, [_], vals] => do
    let s ← st? s
    let m := match domain? T s with | some l => ints l | none => "panic"
    pure (join vals == m, m)
  | ["imp" :: _, [_], [b]] => some (b == "1", "1")
  | ["tr" :: s, [x, v], s2, [c]] => do
    let s ← st? s; let x ← nat? x; let v ← int? v
    let m2 := showOS (trans? T s ⟨x, v⟩)
    -- the harness hands the source state to `transition_cost` when `transition` panicked; the destination is not read
    let k := showOI (cost? T s ⟨x, v⟩)
    pure (join s2 == m2 && c == k, s!"{m2} : {k}")
  | ["rx" :: _, dst, m, [_, _], [c], [r]] => do
    let dst ← st? dst; let m ← st? m; let c ← int? c
    let want := toString (c + ((dst.el.earliest : Int) - (m.el.earliest : Int)))
    pure (r == want, want)
  | ["rk" :: a, b, [o]] => do
    let a ← st? a; let b ← st? b
    let m := showOrd (rankCmp a b)
    pure (o == m, m)
  | [["wd", nv, f, d], [w]] => do
    let nv ← nat? nv; let f ← nat? f; let d ← nat? d
    let m := toString (maxWidth nv f d)
    pure (w == m, m)
  | [["uv", b]] => some (b == "1", "1")
  | ["dc" :: _, [dims], coords] => some (dims == "0" && coords == ["0", "0"], "0 : 0 0")
  | ["dm" :: a, [va], b, [vb], keq, pc] => do
    let a ← st? a; let b ← st? b; let va ← int? va; let vb ← int? vb
    let k := if keyEq a b then "1 1" else "0 0"
    let (o, ovd) := domCmp va vb
    let m := s!"{showOrd o} {if ovd then 1 else 0}"
    pure (join keq == k && join pc == m, s!"{k} : {m}")
  | ["cm" :: _, [va], _, [vb], [o]] => do
    let va ← int? va; let vb ← int? vb
    let m := showOrd (compare va vb)
    pure (o == m, m)
  | ("mg" :: first) :: rest =>
    -- `mg s1 , s2 , … : m` — in the order given; `mg : m` = the merge of no state
    match (first :: rest).reverse with
    | m :: [sts] => do
      let sts ← if sts.isEmpty then some [] else (splitAt "," sts).mapM st?
      let k := showSt (merge sts)
      pure (join m == k, k)
    | _ => none
  | _ => none

/-- which form of `MergeOk` is evaluated on an `rx` event: the VALUE form `-earliest(u) + H(u) ≤ -earliest(m) + H(m)` (the
    value of every node of a diagram of this model is minus the earliest time of its state, and `relax` is the identity —
    `agree` checks it); the potential form `c + H(u) ≤ r + H(m)` of `Wf.lean` does NOT hold for this relaxation (a later
    arrival merged with an earlier one, then absorbed by a wait): it is evaluated too and counted in the model text -/
def mergeClause (T : Tab) (u m : St) (_c _r : Int) : Bool := mergeValOkAt T u m

/-- the potential form of `MergeOk` on an `rx` event (information only): `some note` = violated -/
def potEvent (T : Tab) (e : List String) : Option String :=
  match splitAt ":" e with
  | ["rx" :: _, dst, m, _, [c], [r]] =>
    match st? dst, st? m, int? c, int? r with
    | some dst, some m, some c, some r =>
      if !validB T dst || !validB T m || dst.depth != m.depth || mergeOkAt T dst m c r then none
      else some s!"`{showSt dst}` (value-to-go {showE (bestRem T dst)}, arc cost {c}) merged into `{showSt m}` (value-to-go {showE (bestRem T m)}, relaxed arc cost {r})"
    | _, _, _, _ => none
  | _ => none

/-- `phi` of one event: `none` = nothing to check or holds; `some (kind, note)` = violated -/
def phiEvent (T : Tab) (e : List String) : Option (String × String) :=
  match splitAt ":" e with
  | ["rub" :: s, [r]] =>
    match st? s, (if r == "-inf" then some (none : EInt) else (int? r).map some) with
    | some s, some r =>
      if !validB T s || !rubScope s || rubOkAt T s r then none
      else some ("tsptw-rub", s!"fast_upper_bound of the state `{showSt s}` is {showE r} but a completion is worth {showE (bestRemL T s)}: the rough upper bound is not admissible")
    | _, _ => none
  | ["rx" :: _, dst, m, _, [c], [r]] =>
    match st? dst, st? m, int? c, int? r with
    | some dst, some m, some c, some r =>
      if !validB T dst || !validB T m || dst.depth != m.depth || (mergeClause T dst m c r && mergeOkAt T dst m c r) then none
      else some ("tsptw-merge", s!"`{showSt dst}` (value-to-go {showE (bestRemL T dst)}) merged into `{showSt m}` (value-to-go {showE (bestRemL T m)}): minus the earliest time plus the value-to-go decreases, merge does not over-approximate")
    | _, _, _, _ => none
  | ["pv" :: s, [v], decs] =>
    match st? s, int? v, ints? decs with
    | some s, some v, some decs =>
      let dp := (bestRem T s).addI v
      let spec : EInt := specBestExt T decs
      if spec == dp then none
      else some ("tsptw-exact", s!"after the decisions {decs} (value {v}, state `{showSt s}`) the DP model reaches at best {showE dp}, the specification {showE spec}: the DP model is not exact")
    | _, _, _ => none
  | ["dm" :: a, [va], b, [vb], _, _] =>
    match st? a, int? va, st? b, int? vb with
    | some a, some va, some b, some vb =>
      if !(exactShape a va && exactShape b vb && validB T a && validB T b && a.depth == b.depth && keyEq a b) || domOkAt T a va b vb then none
      else some ("tsptw-dominance", s!"`{showSt a}` (value {va}, best completion {showE ((bestRem T a).addI va)}) against `{showSt b}` (value {vb}, best completion {showE ((bestRem T b).addI vb)}): the dominance verdict is not admissible")
    | _, _, _, _ => none
  | _ => none

end TsptwE

/-- case: `tsptw | n d_00 … d_{n-1 n-1} e_0 l_0 … e_{n-1} l_{n-1} | walks seed style` (hundredths of a time unit) -/
def tsptwCase (toks : List String) (i : List String) : Option Res := do
    let t ← ints? toks
    match t with
    | n :: rest =>
      if n < 0 then none else
      let n := n.toNat
      if rest.length ≠ n * n + 2 * n then none else
      let twh ← Ddo.Examples.Util.pairs? (rest.drop (n * n))
      if i == ["panic"] then
        pure { agree := false, phi := false, model := "-", note := "F:C16 [C16:tsptw model functions panic]" }
      else
      let evs := ((splitAt ";" i).filter (· ≠ [])).eraseDups
      let T := TsptwModel.tabOf n (rest.take (n * n)) twh
      let inDom := TsptwModel.inDomain T
      let mut bad : List String := []
      let mut viol : List (String × String) := []
      let mut pot : List String := []
      for e in evs do
        match TsptwE.potEvent T e with
        | none => pure ()
        | some v => pot := pot ++ [v]
        match TsptwE.checkEvent T e with
        | none => bad := bad ++ [s!"unreadable event `{join e}`"]
        | some (true, _) => pure ()
        | some (false, mm) => bad := bad ++ [s!"`{join e}`: the model says {mm}"]
        match TsptwE.phiEvent T e with
        | none => pure ()
        | some v => viol := viol ++ [v]
      let merges := evs.filter (fun e => e.head? == some "mg")
      let big := merges.filter (fun e => (e.filter (· == ",")).length ≥ 2)
      let phi := !inDom || viol.isEmpty
      pure { agree := bad.isEmpty, phi := phi,
             model := s!"events {evs.length} merges {merges.length} of3+ {big.length}{if inDom then "" else " out-of-domain"}{if pot.isEmpty then "" else s!" potential-form-violations {pot.length}"}{if viol.isEmpty then "" else s!" violations {viol.length} ({join (viol.map (·.1)).eraseDups})"}",
             note := (match (if phi then none else viol.head?) with | none => "" | some v => s!"F:C16 [C16:{v.1}: {v.2}]")
                     ++ (if bad.isEmpty then "" else " D:exmodel " ++ (bad.head?.getD "")) }
    | _ => none

end Ddo.Engines
