import DdoModel.Proto
import DdoModel.Engines.Store
import DdoModel.Examples.TalentschedDp
/-! Family `talentsched` of the driver engine `exmodel` (C16) — `TalentschedDp.lean`; statements in `TalentschedModel.lean`.
    `agree` = every event (the instance the reader built, the actor sets of `TalentSched::new`, variable order, domains,
    `is_impacted_by`, transitions, costs, bounds, merges in the order given, relaxed costs, ranking; panics included) is what
    the model says.  The rough bound is computed by the model on exact rationals; equality with the code's `f64` result is
    required whenever the exact value is farther than `10^-7` from a rounding boundary (`guard`; otherwise `±1` is accepted
    and the case is counted `unguarded` in the `model` field).
    `phi` = pointwise, by exhaustive enumeration over the remaining positions with the model's own domains, transitions, costs:
    * `rub d S : r`: the bound THE CODE returned for the state dominates its value-to-go at depth `d` (`RubOk`), on the states
      that satisfy the layer-validity predicate `validB`;
    * `rx`: for the merged-away state `u`, the merged state `m` THE CODE returned (both valid at depth `var + 1`) and the
      relaxed cost `r` THE CODE returned for an arc of cost `c` into `u`: `c + H(u) ≤ r + H(m)` (`MergeOk`, potential form of
      `Wf.lean`);
    * `pv`: value of the walk prefix + value-to-go of the state reached = minus the least pay, by the independent
      specification `Talentsched.lean`, among the shooting orders that extend the prefix (at the root: `Talentsched.spec`):
      the DP model is exact;
    * `rdd`: the best value of a relaxed diagram compiled BY DDO (`DefaultMDDLEL`) from an exact node with the example's
      relaxation is at least the value of the node + its value-to-go (what merge soundness is for). -/
namespace Ddo.Engines
open Ddo Ddo.Proto Ddo.Examples

namespace TsE
open Ddo.Examples.TalentschedModel

def st? (ts : List String) : Option St :=
  match ts with
  | [a, b] => do let a ← nat? a; let b ← nat? b; pure { scenes := a, maybe := b }
  | _ => none
def showSt (s : St) : String := s!"{s.scenes} {s.maybe}"
def showOrd (o : Ordering) : String := match o with | .lt => "lt" | .eq => "eq" | .gt => "gt"
def showL (l : List String) : String := if l.isEmpty then "-" else join l
def showRows (rows : List (List Int)) : String :=
  if rows.isEmpty then "-" else " , ".intercalate (rows.map (fun r => showL (r.map toString)))
def showOI (o : Option Int) : String := match o with | some v => toString v | none => "panic"
def showOS (o : Option St) : String := match o with | some s => showSt s | none => "panic"
def showE (o : EInt) : String := match o with | some v => toString v | none => "-inf"

/-- checks one event against the model; `none` = unreadable, `some (ok, what the model says)` -/
def checkEvent (T : Tab) (e : List String) : Option (Bool × String) :=
  let P := problem T
  let R := relaxation T
  match splitAt ":" e with
  | [["dims", a, b]] => some (a == toString T.n && b == toString T.k, s!"{T.n} {T.k}")
  | [("cst" :: ts)] => let m := showL (T.cost.map toString); some (join ts == m, m)
  | [("dur" :: ts)] => let m := showL (T.dur.map toString); some (join ts == m, m)
  | [("flg" :: ts)] => let m := showRows T.flags; some (join ts == m, m)
  | [("act" :: ts)] => let m := showL (T.act.map toString); some (join ts == m, m)
  | [["nv", k]] => some (k == toString P.nbVars, toString P.nbVars)
  | [("ord" :: ts)] =>
    let want := (List.range (T.n + 2)).map (fun d => match P.nextVar d [P.init] with | some v => toString v | none => "n")
    some (ts == want, join want)
  | ["init" :: s, [v]] =>
    let m := showSt P.init
    some (join s == m && v == toString P.initVal, s!"{m} : {P.initVal}")
  | ["rub" :: _ :: s, [r]] => do
    let s ← st? s
    match rubQ? T s with
    | none => pure (r == "panic", "panic")
    | some (m, guard) =>
      let near := match int? r with | some c => decide (c - m ≤ 1 ∧ m - c ≤ 1) | none => false
      pure (r == toString m || (!guard && near), toString m ++ (if guard then "" else " (unguarded)"))
  | ["pv" :: s, [v], decs] => do
    -- the value of a walk prefix: replay of its decisions (positions 0, 1, …) from the root
    let s ← st? s; let v ← int? v; let vals ← ints? decs
    let ds := (List.range vals.length).zipWith (fun (k : Nat) (x : Int) => (⟨k, x⟩ : Dec)) vals
    match evalFrom P 0 P.init P.initVal ds with
    | some (s2, v2, _) => pure (s2 == s && v2 == v, s!"{showSt s2} : {v2}")
    | none => pure (false, "not a path of the model")
  | ["dom" :: s, [x], vals] => do
    let s ← st? s; let x ← nat? x
    let m := join ((domain T x s).map toString)
    pure (join vals == m, m)
  | ["imp" :: s, [x], [b]] => do
    let s ← st? s; let x ← nat? x
    pure (b == b2s (P.impacted x s), b2s (P.impacted x s))
  | ["tr" :: s, [x, v], s2, [c]] => do
    let s ← st? s; let x ← nat? x; let v ← int? v
    let m2 := showOS (trans? s ⟨x, v⟩)
    let k := showOI (cost? T s ⟨x, v⟩)
    pure (join s2 == m2 && c == k, s!"{m2} : {k}")
  | ["rx" :: src, dst, m, [x, v], [c], [r]] => do
    let src ← st? src; let dst ← st? dst; let m ← st? m; let x ← nat? x; let v ← int? v; let c ← int? c
    let k := R.relax src dst m ⟨x, v⟩ c
    pure (r == toString k, toString k)
  | ["rk" :: a, b, [o]] => do
    let a ← st? a; let b ← st? b
    let m := showOrd (rankCmp a b)
    pure (o == m, m)
  | [("rdd" :: _), _, _, _, _] => some (true, "")     -- a diagram compiled by ddo: nothing of the model's to compare, `phi` only
  | ("mg" :: first) :: rest =>
    -- `mg s1 , s2 , … : m` — in the order given
    match (first :: rest).reverse with
    | m :: [sts] => do
      let sts ← (splitAt "," sts).mapM st?
      let k := R.merge sts
      pure (join m == showSt k, showSt k)
    | _ => none
  | _ => none

/-- the states and the result of a `mg` event -/
def mg? (e : List String) : Option (List St × St) :=
  match (splitAt ":" e).reverse with
  | m :: [("mg" :: sts)] => do
    let sts ← (splitAt "," sts).mapM st?
    let m ← st? m
    pure (sts, m)
  | _ => none

/-- is the bound of this `rub` event outside the guard (exact value within `10^-7` of a rounding boundary)? -/
def unguarded (T : Tab) (e : List String) : Bool :=
  match splitAt ":" e with
  | ["rub" :: _ :: s, _] => match (st? s).bind (rubQ? T) with | some (_, g) => !g | none => false
  | _ => false

/-- `phi` of one event: `none` = nothing to check or holds; `some (kind, note)` = violated -/
def phiEvent (T : Tab) (tbl : List (List Nat × Int)) (mgs : List (List St × St)) (e : List String) : Option (String × String) :=
  match splitAt ":" e with
  | ["rub" :: d :: s, [r]] =>
    match nat? d, st? s, int? r with
    | some d, some s, some r =>
      if !validB T d s || rubOkAt T d s r then none
      else some ("talentsched-rub", s!"fast_upper_bound of the state `{showSt s}` (depth {d}) is {r} but a completion is worth {showE (bestRem T d s)}: the rough upper bound is not admissible")
    | _, _, _ => none
  | ["rx" :: _, dst, m, [x, _], [c], [r]] =>
    match st? dst, st? m, nat? x, int? c, int? r with
    | some dst, some m, some x, some c, some r =>
      let d := x + 1
      if !validB T d dst || !validB T d m || mergeOkAt T d dst m c r then none
      else
        -- the known cause: `dst` is the FIRST state of the merge and some of its scenes are in neither set of the merged state
        let lost := sdiff dst.scenes (m.scenes ||| m.maybe)
        let first := lost ≠ 0 && mgs.any (fun g => g.2 == m && g.1.head? == some dst)
        some (if first then "talentsched-merge-first-lost" else "talentsched-merge",
        s!"`{showSt dst}` (depth {d}, value-to-go {showE (bestRem T d dst)}, arc cost {c}) merged into `{showSt m}` (value-to-go {showE (bestRem T d m)}, relaxed arc cost {r}): merge/relax do not over-approximate"
        ++ (if first then s!" (it is the first state of the merge; its scenes {bits lost} are in neither set of the merged state, which takes them as shot)" else ""))
    | _, _, _, _, _ => none
  | ["rdd" :: d :: s, [v], decs, [w], [best]] =>
    match nat? d, st? s, int? v with
    | some d, some s, some v =>
      let dp := (bestRem T d s).addI v
      let ok := match int? best with | some b => decide (dp ≤ some b) | none => dp == none
      if ok then none
      else some ("talentsched-rdd", s!"the relaxed diagram of width {w} that ddo compiles from the exact node `{showSt s}` (depth {d}, value {v}, decisions {join decs}) has best value {best}, but the node has a completion worth {showE dp} in all: not an upper bound")
    | _, _, _ => none
  | ["pv" :: s, [v], decs] =>
    match st? s, int? v, ints? decs with
    | some s, some v, some decs =>
      let dp := (bestRem T decs.length s).addI v
      let spec := (specBestExt tbl decs).map (fun c => -c)
      if spec == dp then none
      else some ("talentsched-exact", s!"after the decisions {decs} (value {v}, state `{showSt s}`) the DP model reaches at best {showE dp}, the specification {showE spec}: the DP model is not exact")
    | _, _, _ => none
  | _ => none

end TsE

/-- case: `talentsched | n k (flags(n) cost)*k dur(n) | walks seed style` (style bit 16: the file has a second line of
    durations, each one more than the first line's) -/
def talentschedCase (toks u : List String) (i : List String) : Option Res := do
    let t ← ints? toks
    let u ← ints? u
    let style := (u.getD 2 0).toNat
    match t with
    | n :: k :: rest =>
      if n < 1 ∨ k < 0 then none else
      let n := n.toNat; let k := k.toNat
      if rest.length ≠ k * (n + 1) + n then none else
      let rws ← Ddo.Examples.Util.rows? (n + 1) k (rest.take (k * (n + 1)))
      let flags := rws.map (·.take n)
      let cost := rws.map (fun r => r.getD n 0)
      let dur := rest.drop (k * (n + 1))
      if i == ["panic"] ∨ i == ["unreadable"] then
        pure { agree := false, phi := false, model := "-", note := s!"F:C16 [C16:talentsched model functions: {join i}]" }
      else
      let evs := ((splitAt ";" i).filter (· ≠ [])).eraseDups
      let durs := if style / 16 % 2 = 1 then [dur, dur.map (· + 1)] else [dur]
      let T := TalentschedModel.tabOf n k flags cost durs
      let tbl := TalentschedModel.specTable T
      let mut bad : List String := []
      let mut viol : List (String × String) := []
      let mut ung := 0
      let mgs : List (List TalentschedModel.St × TalentschedModel.St) := evs.filterMap TsE.mg?
      for e in evs do
        match TsE.checkEvent T e with
        | none => bad := bad ++ [s!"unreadable event `{join e}`"]
        | some (true, _) => pure ()
        | some (false, m) => bad := bad ++ [s!"`{join e}`: the model says {m}"]
        if TsE.unguarded T e then ung := ung + 1
        match TsE.phiEvent T tbl mgs e with
        | none => pure ()
        | some v => viol := viol ++ [v]
      let merges := evs.filter (fun e => e.head? == some "mg")
      let big := merges.filter (fun e => (e.filter (· == ",")).length ≥ 2)
      -- `talentsched-merge-first-lost` (the merge forgets the scenes only the FIRST merged state still has to shoot) is an
      -- operator-level OBSERVATION, not a failure of C16: no instance is known on which the program prints a wrong objective
      -- (DESIGN.md 11.4); it is counted in the model text and reported as an `O:` note.  Every other violation fails `phi`.
      -- since the repair of the merge (D18) the class `talentsched-merge-first-lost` is a failure like any other
      let hard := viol
      let obs : List (String × String) := []
      pure { agree := bad.isEmpty, phi := hard.isEmpty,
             model := s!"events {evs.length} merges {merges.length} of3+ {big.length} orders {tbl.length}{if ung = 0 then "" else s!" unguarded {ung}"}{if hard.isEmpty then "" else s!" violations {hard.length}"}{if obs.isEmpty then "" else s!" first-lost {obs.length}"}",
             note := (match hard.head? with | none => "" | some v => s!"F:C16 [C16:{v.1}: {v.2}]")
                     ++ (match hard.head?, obs.head? with | none, some v => s!"O:{v.1}" | _, _ => "")
                     ++ (if bad.isEmpty then "" else " D:exmodel " ++ (bad.head?.getD "")) }
    | _ => none

end Ddo.Engines
