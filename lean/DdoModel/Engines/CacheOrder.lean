import DdoModel.Proto
import DdoModel.Engines.Store
import DdoModel.Props.C09c
/-! Driver engine `cacheorder` (C09, "order in which sub-problems are processed" / "interleaving"): the counter-example
    `Ddo.C09.Layered.Counter` (`Proofs/AnyOrderLayered.lean`) run through the real solvers.
    * case `counter`: the sequential solvers with `SimpleCache` and a breadth-first `SubProblemRanking` (four configurations),
      the library's `MaxUB` with the cache, and the breadth-first ranking without the cache.  `agree`: each run behaves as the
      composed model says (`ksolveSched` on the breadth-first schedule: `is_exact = true`, value 4; `ksolveLoop` best-first: 10).
    * case `counter_par`: the **parallel** solver with the library's own `MaxUB` ranking and `SimpleCache`, free-running and with
      one worker delayed between its pop and its compilation (`max_width` waits until another worker has recorded the
      threshold `(2, depth 5)`), and the same delayed schedule with `EmptyCache`.
    `phi` (C09): every exact run reports the optimum 10 (`Counter.opt10`).  On the current code `phi` fails for both cases:
    open known finding D14. -/
namespace Ddo.Engines
open Ddo Ddo.Proto Ddo.C09 Ddo.C09.Layered

private def showK (c : Bool × Option Int) : String := s!"{if c.1 then 1 else 0} {match c.2 with | some v => toString v | none => "none"}"

def cacheorderEngine (c i : List String) : Option Res := do
  let runs := (splitAt ";" i).filter (· ≠ [])
  let get := fun (n : String) => (runs.find? (fun r => r.head? == some n)).map (fun r => join (r.drop 1))
  let wrong := runs.filter (fun r => match r with
    | _ :: "1" :: v :: _ => v != "10"
    | _ => false)
  let broken := runs.filter (fun r => match r with
    | [_, "panic"] => true
    | _ => false)
  match c with
  | ["counter"] =>
    let bfs := fun (dedup : Bool) (kind : CutsetKind) =>
      showK ((Counter.sv dedup kind).ksolveSched (Counter.sched dedup kind) (KSt.init (Counter.sv dedup kind))).st.completion
    let want : List (String × String) :=
      [("maxub_lel_cache", showK ((Counter.sv false .lel).ksolveLoop 12 (KSt.init (Counter.sv false .lel))).st.completion),
       ("bfs_lel_cache", bfs false .lel), ("bfs_fc_cache", bfs false .frontier),
       ("bfs_lel_cache_nodup", bfs true .lel), ("bfs_fc_cache_nodup", bfs true .frontier)]
    let bad := want.filter (fun (n, m) => get n != some m)
    let phi := wrong.isEmpty && broken.isEmpty
    pure { agree := bad.isEmpty, phi := phi, model := join (want.map (fun (n, m) => s!"{n} {m} ;")),
           note := (if phi then "" else s!"F:C09 [C09:any-order with SimpleCache and a breadth-first SubProblemRanking the sequential solver reports {join ((wrong.head?).getD ((broken.head?).getD []))} as exact; the optimum is 10 (without the cache: {(get "bfs_lel_nocache").getD "?"}); {wrong.length} configurations]")
                   ++ (if bad.isEmpty then "" else s!" D:cacheorder {(bad.head?.map (·.1)).getD ""}") }
  | ["counter_par"] =>
    let phi := wrong.isEmpty && broken.isEmpty
    pure { agree := true, phi := phi, model := "every exact run reports 10",
           note := if phi then "" else s!"F:C09 [C09:parallel-delayed the parallel solver with MaxUB and SimpleCache, one worker delayed between pop and compilation, reports {join ((wrong.head?).getD ((broken.head?).getD []))} as exact; the optimum is 10; {wrong.length} runs]" }
  | _ => none

end Ddo.Engines
