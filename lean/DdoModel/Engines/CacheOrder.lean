import DdoModel.Proto
import DdoModel.Engines.Store
import DdoModel.Props.C09c
/-! Driver engine `cacheorder` (C09, "order in which sub-problems are processed" / "interleaving"): the former counter-example
    `Ddo.C09.Layered.Counter` (`Proofs/AnyOrderLayered.lean`, finding D14) run through the real solvers.
    * case `counter`: the sequential solvers with `SimpleCache` and a breadth-first `SubProblemRanking` (four configurations),
      the library's `MaxUB` with the cache, and the breadth-first ranking without the cache.  `agree`: each run behaves as the
      composed model of the **repaired** solver says (`enqueue_cutset` without the cap: `ksolveSched` on the breadth-first schedule
      `Counter.schedNC`: `is_exact = true`, value 10 — `Counter.nocap_bfs_value`; `ksolveLoop` best-first: 10).  The prediction of
      the pre-fix solver (`ksolveSchedCapped` on `Counter.sched`: value 4, `Counter.anyorder_counter_all`) is printed in the
      notes for reference only.
    * case `counter_par`: the **parallel** solver with the library's own `MaxUB` ranking and `SimpleCache`, free-running and with
      one worker delayed between its pop and its compilation (`max_width` waits until another worker has recorded the
      threshold `(2, depth 5)`), and the same delayed schedule with `EmptyCache`.
    `phi` (C09): every exact run reports the optimum 10 (`Counter.opt10`).  Before the repair of D14 `phi` failed for both
    cases (value 4); with the repaired code every run reports 10 (`caching_solver_correct`, any pop order). -/
namespace Ddo.Engines
open Ddo Ddo.Proto Ddo.C09 Ddo.C09.Layered

private def showK (c : Bool × Option Int) : String := s!"{if c.1 then 1 else 0} {match c.2 with | some v => toString v | none => "none"}"

def cacheorderEngine (c i : List String) : Option Res := do
  let runs := (splitAt ";" i).filter (· ≠ [])
  let get := fun (n : String) => (runs.find? (fun r => r.head? == some n)).map (fun r => join (r.drop 1))
  let wrong := runs.filter (fun r => match r with
    | _ :: "1" :: v :: _ => v != "10"
    | _ => false)
  let broken := runs.filter (fun r => match r with
    | [_, "panic"] => true
    | _ => false)
  match c with
  | ["counter"] =>
    let bfs := fun (dedup : Bool) (kind : CutsetKind) =>
      showK ((Counter.sv dedup kind).ksolveSched (Counter.schedNC dedup kind) (KSt.init (Counter.sv dedup kind))).st.completion
    -- what the pre-fix (capped) solver did on its own breadth-first schedule: reference only
    let preFix := showK ((Counter.sv false .lel).ksolveSchedCapped (Counter.sched false .lel) (KSt.init (Counter.sv false .lel))).st.completion
    let want : List (String × String) :=
      [("maxub_lel_cache", showK ((Counter.sv false .lel).ksolveLoop 12 (KSt.init (Counter.sv false .lel))).st.completion),
       ("bfs_lel_cache", bfs false .lel), ("bfs_fc_cache", bfs false .frontier),
       ("bfs_lel_cache_nodup", bfs true .lel), ("bfs_fc_cache_nodup", bfs true .frontier)]
    let bad := want.filter (fun (n, m) => get n != some m)
    let phi := wrong.isEmpty && broken.isEmpty
    pure { agree := bad.isEmpty, phi := phi, model := join (want.map (fun (n, m) => s!"{n} {m} ;")),
           note := (if phi then "" else s!"F:C09 [C09:any-order with SimpleCache and a breadth-first SubProblemRanking the sequential solver reports {join ((wrong.head?).getD ((broken.head?).getD []))} as exact; the optimum is 10 (without the cache: {(get "bfs_lel_nocache").getD "?"}); {wrong.length} configurations]")
                   ++ (if bad.isEmpty then "" else s!" D:cacheorder {(bad.head?.map (·.1)).getD ""} (pre-fix model: bfs_lel_cache {preFix})") }
  | ["counter_par"] =>
    let phi := wrong.isEmpty && broken.isEmpty
    pure { agree := true, phi := phi, model := "every exact run reports 10",
           note := if phi then "" else s!"F:C09 [C09:parallel-delayed the parallel solver with MaxUB and SimpleCache, one worker delayed between pop and compilation, reports {join ((wrong.head?).getD ((broken.head?).getD []))} as exact; the optimum is 10; {wrong.length} runs]" }
  | _ => none

end Ddo.Engines
