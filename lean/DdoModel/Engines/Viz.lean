import DdoModel.Proto
import DdoModel.Viz
import DdoModel.Engines.Store
/-! Driver engine `viz` (C20).

    case: `<kind> <nnodes> | N … ; N … ; | <layers> | <cfgbits> | …`     impl: `<hex of the DOT text>` or `panic`

    * `agree`: `render dump cfg` is byte for byte the implementation's string (or both panic), and the dump is
      well formed (`wfDump`);
    * `phi`: the property C20 in its own words, evaluated on the **implementation's** string by an independent
      small DOT reader (`parseDot`: tokenizer + recursive-descent statement parser) against the dump. -/
namespace Ddo.Engines
open Ddo.Proto Ddo.Viz

-- ---------------------------------------------------------------------------------------------
-- hex

def hexVal (c : Char) : Option Nat :=
  if '0' ≤ c ∧ c ≤ '9' then some (c.toNat - '0'.toNat)
  else if 'a' ≤ c ∧ c ≤ 'f' then some (c.toNat - 'a'.toNat + 10)
  else if 'A' ≤ c ∧ c ≤ 'F' then some (c.toNat - 'A'.toNat + 10)
  else none

def hexBytes : List Char → Array UInt8 → Option (Array UInt8)
  | [], acc => some acc
  | [_], _ => none
  | a :: b :: r, acc => do
    let x ← hexVal a; let y ← hexVal b
    hexBytes r (acc.push (UInt8.ofNat (16 * x + y)))

/-- hex of UTF-8 bytes → `String` -/
def unhex (s : String) : Option String := do
  let bs ← hexBytes s.toList #[]
  String.fromUTF8? (ByteArray.mk bs)

def hexDigit (n : Nat) : Char := if n < 10 then Char.ofNat (48 + n) else Char.ofNat (87 + n)

def toHex (s : String) : String :=
  String.ofList (s.toUTF8.data.toList.flatMap (fun b => [hexDigit (b.toNat / 16), hexDigit (b.toNat % 16)]))

-- ---------------------------------------------------------------------------------------------
-- parsing the dump

def parseEdge5 : List String → Option DEdge
  | [a, b, x, v, k] => do pure ⟨← nat? a, ← nat? b, ← nat? x, ← int? v, ← int? k⟩
  | _ => none

def parseEdges : Nat → List String → Option (List DEdge)
  | 0, [] => some []
  | 0, _ => none
  | n + 1, a :: b :: x :: v :: k :: r => do
    let e ← parseEdge5 [a, b, x, v, k]
    let es ← parseEdges n r
    pure (e :: es)
  | _ + 1, _ => none

def flag (s : List Char) (i : Nat) : Bool := s[i]? == some '1'

/-- `N <id> <depth> <value_top> <value_bot> <rub> <theta|none> <flags7> <statehex> B <best> E <n> <edges>` -/
def parseNode (ts : List String) : Option DNode := do
  match ts with
  | "N" :: id :: depth :: vt :: vb :: rub :: theta :: flags :: rest =>
    let id ← nat? id; let depth ← nat? depth
    let vt ← int? vt; let vb ← int? vb; let rub ← int? rub
    let theta ← (if theta == "none" then some none else (int? theta).map some)
    let fl := flags.toList
    if fl.length ≠ 7 then none
    -- an empty Debug text gives no token at all
    let (state, rest) ← (match rest with
      | "B" :: r => some ("", r)
      | h :: "B" :: r => (unhex h).map (fun s => (s, r))
      | _ => none)
    let (best, rest) ← (match rest with
      | "-" :: "E" :: r => some (none, r)
      | a :: b :: x :: v :: k :: "E" :: r => (parseEdge5 [a, b, x, v, k]).map (fun e => (some e, r))
      | _ => none)
    match rest with
    | n :: es =>
      let n ← nat? n
      let edges ← parseEdges n es
      pure { id, depth, valueTop := vt, valueBot := vb, rub, theta,
             isExact := flag fl 0, isRelaxed := flag fl 1, isMarked := flag fl 2, isCutset := flag fl 3,
             isDeleted := flag fl 4, isPruned := flag fl 5, isAbove := flag fl 6,
             state, best, edges }
    | _ => none
  | _ => none

/-- kind 0: `L <ids>`;  kind 1: `L<depth> <ids>` -/
def parseLayer (kind : Nat) (ts : List String) : Option (Nat × List Nat) := do
  match ts with
  | l :: ids =>
    let ids ← ids.mapM nat?
    match l.toList with
    | 'L' :: k =>
      if kind = 0 then (if k.isEmpty then some (0, ids) else none)
      else do let k ← nat? (String.ofList k); pure (k, ids)
    | _ => none
  | [] => none

def parseCfg (bits : Nat) : VizCfg :=
  { showValue := bits.testBit 0, showLocb := bits.testBit 1, showRub := bits.testBit 2,
    showThreshold := bits.testBit 3, showDeleted := bits.testBit 4, groupMerged := bits.testBit 5 }

def parseCase (c : List String) : Option (Dump × VizCfg) := do
  match splitAt "|" c with
  | [kind, nn] :: nodes :: layers :: [cfg] :: _ =>
    let kind ← nat? kind; let nn ← nat? nn
    let nodes ← ((splitAt ";" nodes).filter (· ≠ [])).mapM parseNode
    if nodes.length ≠ nn then none
    let ls ← ((splitAt ";" layers).filter (· ≠ [])).mapM (parseLayer kind)
    let cfg ← nat? cfg
    pure ({ kind, nodes, layers := ls.map (·.2), layerKeys := ls.map (·.1) }, parseCfg cfg)
  | _ => none

-- ---------------------------------------------------------------------------------------------
-- a small DOT reader

inductive Tok
  | id (s : String)        -- identifier / numeral
  | str (s : String)       -- quoted string (raw content, escapes kept)
  | sym (c : Char)         -- { } [ ] ; , =
  | arrow                  -- ->
deriving BEq, Repr

def isIdChar (c : Char) : Bool := c.isAlphanum || c == '_' || c == '.'

/-- content of a quoted string up to the closing quote; a backslash protects the next character -/
def lexStr : List Char → List Char → Option (List Char × List Char)
  | [], _ => none
  | '"' :: r, acc => some (acc.reverse, r)
  | '\\' :: c :: r, acc => lexStr r (c :: '\\' :: acc)
  | c :: r, acc => lexStr r (c :: acc)

def lexId : List Char → List Char → List Char × List Char
  | [], acc => (acc.reverse, [])
  | c :: r, acc => if isIdChar c then lexId r (c :: acc) else (acc.reverse, c :: r)

partial def lexDot (cs : List Char) (acc : Array Tok) : Option (Array Tok) :=
  match cs with
  | [] => some acc
  | '-' :: '>' :: r => lexDot r (acc.push .arrow)
  | '"' :: r => do let (s, r') ← lexStr r []; lexDot r' (acc.push (.str (String.ofList s)))
  | c :: r =>
    if c == ' ' || c == '\t' || c == '\n' || c == '\r' then lexDot r acc
    else if c == '{' || c == '}' || c == '[' || c == ']' || c == ';' || c == ',' || c == '=' then
      lexDot r (acc.push (.sym c))
    else if isIdChar c then
      let (s, r') := lexId (c :: r) []
      lexDot r' (acc.push (.id (String.ofList s)))
    else none

inductive Stmt
  | attr (k v : String)                                   -- `ranksep = 3`
  | node (id : String) (attrs : List (String × String))   -- `a [k=v,…]`
  | mention (id : String)                                 -- `a` (no attribute list: does not declare)
  | edge (a b : String) (attrs : List (String × String))  -- `a -> b [k=v,…]`
  | sub (name : String) (body : List Stmt)                -- `subgraph name { … }`
deriving Repr, Inhabited

/-- after `[` : `k=v` separated by optional `,` / `;` until `]` -/
partial def parseAttrs (ts : List Tok) (acc : List (String × String)) : Option (List (String × String) × List Tok) :=
  match ts with
  | .sym ']' :: r => some (acc.reverse, r)
  | .sym ',' :: r => parseAttrs r acc
  | .sym ';' :: r => parseAttrs r acc
  | .id k :: .sym '=' :: .id v :: r => parseAttrs r ((k, v) :: acc)
  | .id k :: .sym '=' :: .str v :: r => parseAttrs r ((k, v) :: acc)
  | _ => none

/-- statements up to (and including) the closing `}` -/
partial def parseStmts (ts : List Tok) (acc : List Stmt) : Option (List Stmt × List Tok) :=
  match ts with
  | .sym '}' :: r => some (acc.reverse, r)
  | .sym ';' :: r => parseStmts r acc
  | .id "subgraph" :: .id name :: .sym '{' :: r => do
    let (body, r') ← parseStmts r []
    parseStmts r' (.sub name body :: acc)
  | .id "subgraph" :: .sym '{' :: r => do
    let (body, r') ← parseStmts r []
    parseStmts r' (.sub "" body :: acc)
  | .id a :: .arrow :: .id b :: .sym '[' :: r => do
    let (ats, r') ← parseAttrs r []
    parseStmts r' (.edge a b ats :: acc)
  | .id a :: .arrow :: .id b :: r => parseStmts r (.edge a b [] :: acc)
  | .id k :: .sym '=' :: .id v :: r => parseStmts r (.attr k v :: acc)
  | .id k :: .sym '=' :: .str v :: r => parseStmts r (.attr k v :: acc)
  | .id a :: .sym '[' :: r => do
    let (ats, r') ← parseAttrs r []
    parseStmts r' (.node a ats :: acc)
  | .id a :: r => parseStmts r (.mention a :: acc)
  | _ => none

/-- `digraph { stmt* }` and nothing else -/
def parseDot (s : String) : Option (List Stmt) := do
  let ts ← lexDot s.toList #[]
  match ts.toList with
  | .id "digraph" :: .sym '{' :: r =>
    let (stmts, rest) ← parseStmts r []
    if rest.isEmpty then some stmts else none
  | _ => none

/-- `(x<var> = <val>)\ncost = <cost>` (backslash-n = two characters) -/
def parseEdgeLabel (l : String) : Option (Nat × Int × Int) :=
  match l.splitOn ")\\ncost = " with
  | [a, cost] =>
    match a.toList with
    | '(' :: 'x' :: r =>
      match (String.ofList r).splitOn " = " with
      | [var, val] => do pure (← nat? var, ← int? val, ← int? cost)
      | _ => none
    | _ => none
  | _ => none

-- ---------------------------------------------------------------------------------------------
-- phi (C20)

structure DotFacts where
  decls : List Nat := []              -- top-level numeric node declarations
  termDecls : Nat := 0                -- declarations of `terminal`
  edges : List DEdge := []            -- arcs `a -> b [label=…]`
  termEdges : List Nat := []          -- `a -> terminal`
  bad : List String := []             -- anything the property does not allow
  clusterIds : List Nat := []         -- ids mentioned inside cluster bodies (in DOT a mention declares the node)

def DotFacts.err (f : DotFacts) (m : String) : DotFacts := { f with bad := m :: f.bad }

/-- the body of a cluster may only set attributes and mention nodes -/
def clusterBodyOk : List Stmt → Bool
  | [] => true
  | .attr _ _ :: r => clusterBodyOk r
  | .mention a :: r => a.toNat?.isSome && clusterBodyOk r
  | _ => false

def collect : List Stmt → DotFacts → DotFacts
  | [], f => f
  | s :: r, f =>
    let f := match s with
      | .attr "ranksep" "3" => f
      | .attr k v => f.err s!"unexpected graph attribute {k}={v}"
      | .mention a => f.err s!"bare statement {a}"
      | .node "terminal" _ => { f with termDecls := f.termDecls + 1 }
      | .node a _ => match a.toNat? with
        | some n => { f with decls := n :: f.decls }
        | none => f.err s!"declaration of a node that is not an id: {a}"
      | .edge a "terminal" _ => match a.toNat? with
        | some n => { f with termEdges := n :: f.termEdges }
        | none => f.err s!"edge to terminal from {a}"
      | .edge a b ats => match a.toNat?, b.toNat?, (ats.lookup "label").bind parseEdgeLabel with
        | some a, some b, some (x, v, k) => { f with edges := ⟨a, b, x, v, k⟩ :: f.edges }
        | _, _, _ => f.err s!"unreadable edge {a} -> {b}"
      | .sub name body =>
        if name.startsWith "cluster_" && clusterBodyOk body then
          { f with clusterIds := (body.filterMap (fun st => match st with | .mention a => a.toNat? | _ => none)) ++ f.clusterIds }
        else f.err s!"unexpected subgraph {name}"
    collect r f

def firstSome : List (Option String) → Option String
  | [] => none
  | some m :: _ => some m
  | none :: r => firstSome r

/-- `none` = the property holds of this DOT text for this dump; `some reason` otherwise -/
def phiViz (d : Dump) (c : VizCfg) (dot : String) : Option String :=
  match parseDot dot with
  | none => some "the output is not a well-formed DOT digraph"
  | some stmts =>
    let f := collect stmts {}
    let vis := d.nodes.filter (visible c)
    let visIds := vis.map (·.id)
    let allIds := d.nodes.map (·.id)
    let last := d.layers.getLast?.getD []
    firstSome [
      f.bad.reverse.head?,
      -- nodes: the non-hidden ones, each exactly once
      (visIds.find? (fun i => f.decls.count i ≠ 1)).map
        (fun i => s!"node {i} is not hidden but is declared {f.decls.count i} times"),
      (f.decls.find? (fun i => !visIds.contains i)).map
        (fun i => s!"declared node {i} is hidden by the configuration or does not exist"),
      (f.clusterIds.find? (fun i => !visIds.contains i)).map
        (fun i => s!"node {i} is hidden by the configuration (or does not exist) but is listed in a cluster, which makes it appear"),
      -- edges: drawn ⊆ arcs of the dump between existing nodes
      (f.edges.find? (fun e => !(allIds.contains e.src && allIds.contains e.dst))).map
        (fun e => s!"edge {e.src} -> {e.dst} connects a node that does not exist"),
      (f.edges.find? (fun e => !(d.nodes.any (fun n => n.id == e.dst && n.edges.contains e)))).map
        (fun e => s!"edge {e.src} -> {e.dst} (x{e.var} = {e.val}, cost {e.cost}) is not an arc of the diagram"),
      -- every inbound arc of a non-hidden node drawn as often as it occurs
      (vis.findSome? (fun n => (n.edges.find? (fun e => f.edges.count e ≠ n.edges.count e)).map
        (fun e => s!"arc {e.src} -> {e.dst} (x{e.var} = {e.val}, cost {e.cost}) occurs {n.edges.count e} times but is drawn {f.edges.count e} times"))),
      (f.edges.find? (fun e => !visIds.contains e.dst && f.edges.count e > (d.nodes.foldl (fun a n => a + (if n.id == e.dst then n.edges.count e else 0)) 0))).map
        (fun e => s!"edge {e.src} -> {e.dst} into a hidden node is drawn more often than it occurs"),
      -- terminal
      (if last.isEmpty then
        (if f.termDecls ≠ 0 then some "a terminal node is drawn although the last layer is empty"
         else if !f.termEdges.isEmpty then some "edges to an undeclared terminal node" else none)
       else
        (if f.termDecls ≠ 1 then some s!"the last layer is not empty but the terminal node is declared {f.termDecls} times"
         else match last.find? (fun i => f.termEdges.count i ≠ 1) with
          | some i => some s!"node {i} of the last layer has {f.termEdges.count i} edges to the terminal node"
          | none => (f.termEdges.find? (fun i => !last.contains i)).map
              (fun i => s!"node {i} is not in the last layer but has an edge to the terminal node")))
    ]

-- ---------------------------------------------------------------------------------------------

def firstDiff : List Char → List Char → Nat → Nat
  | a :: r, b :: s, i => if a == b then firstDiff r s (i + 1) else i
  | _, _, i => i

def vizEngine (c i : List String) : Option Res := do
  let (d, cfg) ← parseCase c
  let m := render d cfg
  let ms := match m with | none => "panic" | some s => toHex s
  let wf := wfDump d
  match i with
  | ["panic"] =>
    pure { agree := m.isNone && wf, phi := false, model := ms,
           note := "F:C20 [C20:as_graphviz panics]" ++ (if wf then "" else " dump not well formed") }
  | [h] =>
    let s ← unhex h
    let why := phiViz d cfg s
    let agree := m == some s
    let note1 := match why with | none => "" | some r => s!"F:C20 [C20:{r}]"
    let note2 := if agree then "" else match m with
      | none => "model panics"
      | some t => s!"first difference at char {firstDiff t.toList s.toList 0}"
    let note3 := if wf then "" else "dump not well formed"
    pure { agree := agree && wf, phi := why.isNone, model := ms,
           note := " ".intercalate ([note1, note2, note3].filter (· ≠ "")) }
  | _ => none

end Ddo.Engines
