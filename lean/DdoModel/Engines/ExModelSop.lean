import DdoModel.Proto
import DdoModel.Engines.Store
import DdoModel.Examples.SopDp
/-! Family `sop` of the driver engine `exmodel` (C16) — `SopDp.lean`; statements in `SopModel.lean`.
    `agree` = every event (the instance the reader built, the table `cheapest_edges` of `Sop::new`, variable order, domains,
    transitions, costs, bounds, merges in the order given, relaxed costs, ranking, widths; panics included) is what the
    model says;
    `phi` = pointwise, by exhaustive enumeration over the remaining jobs with the model's own domains, transitions and costs
    (on the states `validB` describes):
    * `rub`: the bound THE CODE returned for the state dominates the value-to-go of every exact state it stands for — an
      exact state stands for itself (`RubOk`; a bound that panics claims nothing).  A violation by a bound that is exactly
      the modelled `rub?`, where the corrected bound `rubFixed?` (the lesser of the two edge selections instead of the
      comparison with the FIRST optional edge) is admissible, is named `sop-rub-optional-edge` and is an OBSERVATION: found
      pointwise only (no wrong objective end to end), it does not fail `phi`, it is counted in the model text and leads the
      note as `O:C16 [C16:sop-rub-optional-edge: …]` when no clause fails; any other violation is `sop-rub` and fails `phi`.  On merged states the bound is NOT above
      the value-to-go of the relaxed DP itself (whose completions may leave mandatory jobs out): those points are counted in
      the model text (`rub-vs-relaxed-dp k`), they are no violation (no solution is lost by pruning on such a bound);
    * `rx`: for a merged-away state `u` of a recorded `mg` event, the merged state `m` THE CODE returned (same depth) and the
      relaxed cost `r` THE CODE returned for an arc of cost `c` into `u`: `c + H(u) ≤ r + H(m)` (`MergeOk`, potential form of
      `Wf.lean`), the values-to-go being those of the DP of the repaired code (`canSchedule?`, `trans?`).  Any violation is
      named `sop-merge` and fails `phi` (finding D12 — `can_schedule` demanded on a merged state that every predecessor be
      scheduled in ALL merged states — is repaired: `SopDp.canScheduleOld?`, `SopModel.d12_refutes_MergeOkStmt`);
    * `pv`: value of the walk prefix + value-to-go of the state reached = minus the least cost, by the independent
      specification `Sop.lean`, among the sequences that extend the prefix (`-∞` = none): the DP model is exact.
    Instances outside the domain of the format (unmarked ends, negative distances, a non-zero diagonal, no job) are
    mirrored all the same (`agree`), their `phi` is `true` by definition (the violations are counted in the model text). -/
namespace Ddo.Engines
open Ddo Ddo.Proto Ddo.Examples

namespace SopE
open Ddo.Examples.SopModel

def set? (t : String) : Option Nat :=
  if t == "-" then some 0 else (t.splitOn ",").foldlM (fun m x => (nat? x).map fun k => m ||| single k) 0
def st? : List String → Option St
  | [k, p, mu, my, d] => do
    let prev ← if k == "j" then (nat? p).map Prev.job else if k == "v" then (set? p).map Prev.virt else none
    let must ← set? mu
    let maybe ← if my == "n" then some none else (set? my).map some
    let depth ← nat? d
    pure { prev := prev, must := must, maybe := maybe, depth := depth }
  | _ => none
def showSet (m : Nat) : String := if m = 0 then "-" else ",".intercalate ((bits m).map toString)
def showSt (s : St) : String :=
  join [match s.prev with | .job i => s!"j {i}" | .virt c => s!"v {showSet c}", showSet s.must,
        (match s.maybe with | none => "n" | some y => showSet y), toString s.depth]
def showOrd (o : Ordering) : String := match o with | .lt => "lt" | .eq => "eq" | .gt => "gt"
def showOI (o : Option Int) : String := match o with | some v => toString v | none => "panic"
def showOS (o : Option St) : String := match o with | some s => showSt s | none => "panic"
def showE (o : EInt) : String := match o with | some v => toString v | none => "-inf"
def ints (l : List Int) : String := join (l.map toString)
def rowsToks (rows : List (List String)) : List String := [","].intercalate rows

/-- checks one event against the model; `none` = unreadable, `some (ok, what the model says)` -/
def checkEvent (T : Tab) (e : List String) : Option (Bool × String) :=
  let P := problem T
  match splitAt ":" e with
  | [["nv", k]] => some (k == toString P.nbVars, toString P.nbVars)
  | [["inst", k], rows, preds, npreds] =>
    let wr := rowsToks (T.d.toList.map fun r => r.toList.map toString)
    let wp := T.pred.toList.map showSet
    let wn := T.pred.toList.map fun p => toString (card p)
    some (k == toString T.n && rows == wr && preds == wp && npreds == wn, s!"{T.n} : {join wr} : {join wp} : {join wn}")
  | [("tab" :: ts)] =>
    let want := rowsToks (T.cheap.toList.map fun r => r.flatMap fun (c, j) => [toString c, toString j])
    some (ts == want, join want)
  | [("ord" :: ts)] =>
    let want := (List.range (nv T + 2)).map (fun d => match P.nextVar d [P.init] with | some v => toString v | none => "n")
    some (ts == want, join want)
  | ["init" :: s, [v]] =>
    let m := showSt P.init
    some (join s == m && v == toString P.initVal, s!"{m} : {P.initVal}")
  | ["rub" :: s, [r]] => do
    let s ← st? s
    let m := showOI (rub? T s)
    pure (r == m, m)
  | ["pv" :: s, [v], decs] => do
    -- the value of a walk prefix: replay of its decisions (variables 0, 1, …) from the root
    let s ← st? s; let v ← int? v; let vals ← ints? decs
    let ds := (List.range vals.length).zipWith (fun (k : Nat) (x : Int) => (⟨k, x⟩ : Dec)) vals
    match evalFrom P 0 P.init P.initVal ds with
    | some (s2, v2, _) => pure (s2 == s && v2 == v, s!"{showSt s2} : {v2}")
    | none => pure (false, "not a path of the model")
  | ["dom" :: s, [_], vals] => do
    let s ← st? s
    let m := match domain? T s with | some l => ints l | none => "panic"
    pure (join vals == m, m)
  | ["tr" :: s, [x, v], s2, [c]] => do
    let s ← st? s; let x ← nat? x; let v ← int? v
    let m2 := showOS (trans? T s ⟨x, v⟩)
    -- the harness hands the source state to `transition_cost` when `transition` panicked; the destination is not read
    let k := showOI (cost? T s ⟨x, v⟩)
    pure (join s2 == m2 && c == k, s!"{m2} : {k}")
  | ["rx" :: _, _, _, [_, _], [c], [r]] => do
    let c ← int? c
    let k := toString (relaxCost c)
    pure (r == k, k)
  | ["rk" :: a, b, [o]] => do
    let a ← st? a; let b ← st? b
    let m := showOrd (rankCmp a b)
    pure (o == m, m)
  | [["wd", nbv, f, d], [w]] => do
    let nbv ← nat? nbv; let f ← nat? f; let d ← nat? d
    let m := toString (maxWidth nbv f d)
    pure (w == m, m)
  | ("mg" :: first) :: rest =>
    -- `mg s1 , s2 , … : m` — in the order given; `mg : m` = the merge of no state
    match (first :: rest).reverse with
    | m :: [sts] => do
      let sts ← if sts.isEmpty then some [] else (splitAt "," sts).mapM st?
      let k := showSt (merge sts)
      pure (join m == k, k)
    | _ => none
  | _ => none

/-- the `mg` events of a case: (merged states, result) -/
def mergeOf (e : List String) : Option (List St × St) :=
  match splitAt ":" e with
  | [("mg" :: sts), m] => do
    let sts ← if sts.isEmpty then some [] else (splitAt "," sts).mapM st?
    let m ← st? m
    pure (sts, m)
  | _ => none

/-- `phi` of one event: `none` = nothing to check or holds; `some (kind, note)` = violated -/
def phiEvent (T : Tab) (seqs : List (List Nat)) (merges : List (List St × St)) (e : List String) : Option (String × String) :=
  match splitAt ":" e with
  | ["rub" :: s, [r]] =>
    match st? s, int? r with
    | some s, some r =>
      if !validB T s then none
      else if !rubOkAt T s r then
        if rubOptionalEdgeAt T s r then
          some ("sop-rub-optional-edge", s!"fast_upper_bound of the state `{showSt s}` is {r} but a completion of an exact state it stands for is worth {showE (bestRemConc T s)}; the corrected bound (the lesser of `all mandatory edges but the largest + k optional ones` and `all mandatory edges + k-1 optional ones`, instead of the comparison with the FIRST optional edge) is {showOI (rubFixed? T s)}: not admissible on this merged state, no wrong objective obtained end to end")
        else
          some ("sop-rub", s!"fast_upper_bound of the state `{showSt s}` is {r} but a completion of an exact state it stands for is worth {showE (bestRemConc T s)}: the rough upper bound is not admissible")
      else if !rubOkRelaxedDpAt T s r then
        some ("rub-vs-relaxed-dp", s!"fast_upper_bound of the state `{showSt s}` is {r}, the relaxed DP completes it for {showE (bestRem T s)} (leaving mandatory jobs out), the exact states it stands for reach {showE (bestRemConc T s)}")
      else none
    | _, _ => none
  | ["rx" :: _, dst, m, _, [c], [r]] =>
    match st? dst, st? m, int? c, int? r with
    | some dst, some m, some c, some r =>
      if !validB T dst || dst.depth != m.depth || !(merges.any fun (sts, mm) => mm == m && sts.contains dst) then none else
      let hu := bestRem T dst
      let hm := bestRem T m
      if mergeOkWith hu hm c r then none
      else some ("sop-merge", s!"`{showSt dst}` (value-to-go {showE hu}, arc cost {c}) merged into `{showSt m}` (value-to-go {showE hm}, relaxed arc cost {r}): merge/relax do not over-approximate")
    | _, _, _, _ => none
  | ["pv" :: s, [v], decs] =>
    match st? s, int? v, ints? decs with
    | some s, some v, some decs =>
      let dp := (bestRem T s).addI v
      let spec : EInt := (specBestIn seqs (dfun T) (decs.map Int.toNat)).map (fun x => -x)
      if decs.all (0 ≤ ·) && spec == dp then none
      else some ("sop-exact", s!"after the decisions {decs} (value {v}, state `{showSt s}`) the DP model reaches at best {showE dp}, the specification {showE spec}: the DP model is not exact")
    | _, _, _ => none
  | _ => none

end SopE

/-- case: `sop | n d[0][0] … d[n-1][n-1] | walks seed style` (the matrix of the instance file, row by row) -/
def sopCase (toks : List String) (i : List String) : Option Res := do
    let t ← ints? toks
    match t with
    | n :: rest =>
      if n < 0 then none else
      let n := n.toNat
      let rows ← Ddo.Examples.Util.rows? n n rest
      if n = 0 then
        -- no job at all: `nb_variables` computes `0 - 1` on `usize`
        pure { agree := i == ["nv", "panic"], phi := true, model := "nv panic (no job: nb_variables underflows) out-of-domain",
               note := if i == ["nv", "panic"] then "" else "D:exmodel the model says that nb_variables panics" }
      else if i == ["panic"] then
        pure { agree := false, phi := false, model := "-", note := "F:C16 [C16:sop model functions panic]" }
      else
      let evs := ((splitAt ";" i).filter (· ≠ [])).eraseDups
      let T := SopModel.tabOf n rows
      let inDom := SopModel.inDomain n rows
      let seqs := SopModel.specSeqs n
      let merges := evs.filterMap SopE.mergeOf
      let mut bad : List String := []
      let mut viol : List (String × String) := []
      let mut soft : List (String × String) := []
      let mut obs : List (String × String) := []
      for e in evs do
        match SopE.checkEvent T e with
        | none => bad := bad ++ [s!"unreadable event `{join e}`"]
        | some (true, _) => pure ()
        | some (false, mm) => bad := bad ++ [s!"`{join e}`: the model says {mm}"]
        match SopE.phiEvent T seqs merges e with
        | none => pure ()
        | some v =>
          if v.1 == "rub-vs-relaxed-dp" then soft := soft ++ [v]
          else if v.1 == "sop-rub-optional-edge" then obs := obs ++ [v]
          else viol := viol ++ [v]
      let big := merges.filter (fun (sts, _) => sts.length ≥ 3)
      let phi := !inDom || viol.isEmpty
      -- the observations (`sop-rub-optional-edge`) do not fail `phi` and lead the note (`O:`) only when no clause fails
      let kinds := (viol.map (·.1)).eraseDups
      pure { agree := bad.isEmpty, phi := phi,
             model := s!"events {evs.length} merges {merges.length} of3+ {big.length}{if inDom then "" else " out-of-domain"}{if viol.isEmpty then "" else s!" violations {viol.length} ({join kinds})"}{if obs.isEmpty then "" else s!" sop-rub-optional-edge {obs.length}"}{if soft.isEmpty then "" else s!" rub-vs-relaxed-dp {soft.length}"}",
             note := (match (if phi then none else viol.head?) with
                      | some v => s!"F:C16 [C16:{v.1}: {v.2}]"
                      | none => (match (if inDom then obs.head? else none) with
                                 | some v => s!"O:C16 [C16:{v.1}: {v.2}]"
                                 | none => ""))
                     ++ (if bad.isEmpty then "" else " D:exmodel " ++ (bad.head?.getD "")) }
    | _ => none

end Ddo.Engines
