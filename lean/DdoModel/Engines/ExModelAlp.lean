import DdoModel.Proto
import DdoModel.Engines.Store
import DdoModel.Examples.AlpDp
/-! Family `alp` of the driver engine `exmodel` (C16) — `AlpDp.lean`; statements in `AlpModel.lean`.  `agree` = every event
    (what the reader built, tables, decision encoding, arrival times, variable order, domains, transitions, costs, bounds,
    merges, relaxed costs, ranking, dominance key / coordinates / comparisons) is what the model says; `phi` = on instances
    of the example's domain (`Inst.inDomain`), pointwise, by exhaustive enumeration over the aircraft left with the model's
    own domains and transition costs: the bound THE CODE returned for every visited state dominates the best completion
    (`RubOk`); for every merged-away state, with the increase of the arc cost THE CODE returned, the merged state reaches at
    least as much (`MergeOk`); for every pair of states of one key the verdict of `partial_cmp` THE CODE returned discards a
    state that reaches nothing better (the dominance rule is admissible); the value of every walk prefix plus its best
    completion equals the optimum of the independent specification (`Alp.lean`) among the schedules extending the prefix
    (the DP model is exact).  Enumerations above `enumLimit` / `specLimit` are skipped (counted in the model text). -/
namespace Ddo.Engines
open Ddo Ddo.Proto Ddo.Examples

namespace AlpX
open Ddo.Examples.AlpModel

def enumLimit : Nat := 40000
def specLimit : Nat := 2000

def rws? : List Int → Option (List Rw)
  | [] => some []
  | t :: c :: r => (rws? r).map ((t, c) :: ·)
  | _ => none

def st? (I : Inst) (ts : List String) : Option St := do
  let xs ← ints? ts
  if xs.length ≠ I.nbClasses + 2 * I.nbRunways then none else
  let rem := xs.take I.nbClasses
  if rem.any (· < 0) then none else
  let info ← rws? (xs.drop I.nbClasses)
  pure (rem.map Int.toNat, info)
def showSt (s : St) : String := join (s.1.map toString ++ s.2.flatMap (fun p => [toString p.1, toString p.2]))
def showOrd (o : Ordering) : String := match o with | .lt => "lt" | .eq => "eq" | .gt => "gt"
def ord? (s : String) : Option Ordering := match s with | "lt" => some .lt | "eq" => some .eq | "gt" => some .gt | _ => none
def showOV (o : Option Nat) : String := match o with | some v => toString v | none => "n"
def showOpt {α : Type} [ToString α] (o : Option α) : String := match o with | some v => toString v | none => "panic"
def showE (o : EInt) : String := match o with | some v => toString v | none => "-inf"
def showPc (o : Option (Ordering × Bool)) : String := match o with | none => "none" | some (o, b) => s!"{showOrd o} {b2s b}"
def ints (l : List Int) : String := join (l.map toString)
def nats (l : List Nat) : String := join (l.map toString)

/-- checks one event against the model; `none` = unreadable, `some (ok, what the model says)` -/
def checkEvent (I : Inst) (e : List String) : Option (Bool × String) :=
  let P := problem I
  let R := relaxation I
  let D := AlpModel.domRule
  let n := I.nbAircraft
  match splitAt ":" e with
  | [["nv", k]] => some (k == toString P.nbVars, toString P.nbVars)
  | [["inst", k, m, r], cls, tgt, lat, sep] =>
    let want := [[toString I.nbClasses, toString I.nbAircraft, toString I.nbRunways], I.classes.map toString, I.target.map toString,
                 I.latest.map toString, I.sep.flatten.map toString]
    some ([[k, m, r], cls, tgt, lat, sep] == want, " : ".intercalate (want.map join))
  | [["nxt", c], l] => do
    let c ← nat? c
    pure (l == (I.nextTab c).map toString, nats (I.nextTab c))
  | [["dec", c, r], [v], [c2, r2]] => do
    let c ← nat? c; let r ← nat? r
    let v' := toDecision I c r
    let b := fromDecision I v'
    pure (v == toString v' && [c2, r2] == [toString b.1, toString b.2], s!"{v'} : {b.1} {b.2}")
  | ["arr" :: info, [a, r], [t]] => do
    let info ← ints? info; let info ← rws? info; let a ← nat? a; let r ← nat? r
    let m := if r < info.length ∧ a < n then toString (arrival I info a r) else "panic"
    pure (t == m, m)
  | [("ord" :: ts)] =>
    let want := (List.range (n + 2)).map (fun d => showOV (P.nextVar d [P.init]))
    some (ts == want, join want)
  | [("nve" :: ts)] =>
    let want := (List.range (n + 2)).map (fun d => showOV (P.nextVar d []))
    some (ts == want, join want)
  | ["init" :: s, [v]] =>
    let m := showSt P.init
    some (join s == m && v == toString P.initVal, s!"{m} : {P.initVal}")
  | ["rub" :: s, [r]] => do
    let s ← st? I s
    pure (r == toString (R.rub s), toString (R.rub s))
  | [["uv", b]] => some (b == b2s D.useValue, b2s D.useValue)
  | ["key" :: s, ws] => do
    let s ← st? I s
    let m := match D.key s with | some _ => ints (keyWords s) | none => "none"
    pure (join ws == m, m)
  | ["dc" :: s, [d], cs] => do
    let s ← st? I s
    let m := ints (D.coordsN (D.dims s) s)
    pure (d == toString (D.dims s) && join cs == m, s!"{D.dims s} : {m}")
  | ["pv" :: s, [v], decs] => do
    -- the value of a walk prefix: replay of its decisions from the root (each must be in the domain)
    let s ← st? I s; let v ← int? v; let decs ← ints? decs
    match replayPhys I decs P.init (List.range I.nbRunways) P.initVal [] with
    | some (s2, v2, _) => pure (s2 == s && v2 == v, s!"{showSt s2} : {v2}")
    | none => pure (false, "not a path of the model")
  | ["dom" :: s, [d, x], vals] => do
    let s ← st? I s; let d ← nat? d; let x ← nat? x
    let m := (P.domain x s).map toString
    pure (vals == m && P.nextVar d [s] == some x, s!"{showOV (P.nextVar d [s])} : {join m}")
  | ["tr" :: s, [_, v], s2, [c]] => do
    let s ← st? I s; let v ← int? v
    let m2 := match trans? I s v with | some t => showSt t | none => "panic"
    -- after a panic of `transition` the harness asks `transition_cost` with the source state as destination
    let k := showOpt (cost? I s v)
    pure (join s2 == m2 && c == k, s!"{m2} : {k}")
  | ["rx" :: src, dst, m, [x, v], [c], [r]] => do
    let src ← st? I src; let dst ← st? I dst; let m ← st? I m; let x ← nat? x; let v ← int? v; let c ← int? c
    let k := R.relax src dst m ⟨x, v⟩ c
    pure (r == toString k, toString k)
  | ["rk" :: a, b, [o]] => do
    let a ← st? I a; let b ← st? I b
    let m := showOrd (rankCmp a b)
    pure (o == m, m)
  | [("mg" :: sts), m] => do
    let sts ← if sts.isEmpty then some [] else (splitAt "," sts).mapM (st? I)
    let k := R.merge sts
    pure (join m == showSt k, showSt k)
  | ["dm" :: a, [va], b, [vb], [keq], pc] => do
    let a ← st? I a; let b ← st? I b; let va ← int? va; let vb ← int? vb
    let mk := match D.key a, D.key b with | some x, some y => b2s (x == y) | _, _ => "none"
    let mp := showPc (D.partialCmp a va b vb)
    pure (keq == mk && join pc == mp, s!"{mk} : {mp}")
  | ["cm" :: a, [va], b, [vb], [o]] => do
    let a ← st? I a; let b ← st? I b; let va ← int? va; let vb ← int? vb
    let m := showOrd (D.cmp a va b vb)
    pure (o == m, m)
  | _ => none

/-- the states whose best completion `phiEvent` asks for -/
def statesOf (I : Inst) (e : List String) : List St :=
  match splitAt ":" e with
  | ["rub" :: s, _] => (st? I s).toList
  | ["pv" :: s, _, _] => (st? I s).toList
  | ["rx" :: _, dst, m, _, _, _] => (st? I dst).toList ++ (st? I m).toList
  | ["dm" :: a, _, b, _, ["1"], [_, _]] => (st? I a).toList ++ (st? I b).toList
  | _ => []

abbrev Cache := List (St × EInt)
def Cache.get (c : Cache) (s : St) : Option EInt := (c.find? (fun p => p.1 == s)).map (·.2)

/-- `phi` of one event: `(kind of check made — 0 none, 1 rub, 2 rx, 3 dm, 4 pv —, violation)`; `best` = the best completions enumerated for this case (a state whose
    enumeration is too large is absent: nothing is checked).
    * `rub`: the bound THE CODE returned dominates the best completion — `RubOk` pointwise;
    * `rx`: with the increase of the arc cost THE CODE returned, the merged state reaches at least what the merged-away
      state reaches — `MergeOk` pointwise;
    * `dm`: the keys being equal according to THE CODE, the verdict of `partial_cmp` THE CODE returned is admissible;
    * `pv`: value of the prefix + best completion = minus the specification's least delay among the schedules extending
      the prefix (both infeasible, or both feasible and equal) — the DP model is exact (instances of the domain only). -/
def phiEvent (I : Inst) (best : Cache) (e : List String) : Nat × Option String :=
  match splitAt ":" e with
  | ["rub" :: s, [r]] =>
    match st? I s, int? r with
    | some s, some r =>
      match best.get s with
      | some b => (1, if decide (b ≤ some r) then none
          else some s!"fast_upper_bound of the state `{showSt s}` is {r} but a completion gains {showE b}: the rough upper bound is not admissible")
      | none => (0, none)
    | _, _ => (0, none)
  | ["rx" :: _, dst, m, _, [c], [r]] =>
    match st? I dst, st? I m, int? c, int? r with
    | some dst, some m, some c, some r =>
      match best.get dst, best.get m with
      | some bd, some bm => (2, if decide (bd ≤ bm.addI (r - c)) then none
          else some s!"merging `{showSt dst}` (best completion {showE bd}) into `{showSt m}` (best completion {showE bm}) with the arc cost raised by {r - c}: merge/relax do not over-approximate")
      | _, _ => (0, none)
    | _, _, _, _ => (0, none)
  | ["dm" :: a, [va], b, [vb], ["1"], [o, _]] =>
    match st? I a, int? va, st? I b, int? vb, ord? o with
    | some a, some va, some b, some vb, some o =>
      match best.get a, best.get b with
      | some ba, some bb =>
        let ta := ba.addI va
        let tb := bb.addI vb
        let ok := match o with
          | .lt => decide (ta ≤ tb)
          | .gt => decide (tb ≤ ta)
          | .eq => decide (ta ≤ tb) && decide (tb ≤ ta)
        (3, if ok then none
          else some s!"dominance: `{showSt a}` (value {va}, reaches {showE ta}) against `{showSt b}` (value {vb}, reaches {showE tb}) is `{showOrd o}`: the rule is not admissible")
      | _, _ => (0, none)
    | _, _, _, _, _ => (0, none)
  | ["arr" :: info, [a, r], [t]] =>
    -- a runway whose previous class is unknown (merged) must let the aircraft land no later than the same runway with any
    -- known previous class would: the answer THE CODE gave against the separations of the instance
    match (ints? info).bind rws?, nat? a, nat? r, int? t with
    | some info, some a, some r, some t =>
      match info[r]? with
      | some (tm, -1) =>
        if tm = 0 ∨ a ≥ I.nbAircraft then (0, none) else
        let late := (List.range I.nbClasses).filter (fun c => decide (max (I.tgt a) (tm + I.sepAt c (I.cls a)) < t))
        (5, match late.head? with
            | none => none
            | some c => some s!"aircraft {a} after an UNKNOWN class on a runway free at {tm} lands at {t}, later than after class {c} ({max (I.tgt a) (tm + I.sepAt c (I.cls a))}): the merged runway does not over-approximate")
      | _ => (0, none)
    | _, _, _, _ => (0, none)
  | ["pv" :: s, [v], decs] =>
    match st? I s, int? v, ints? decs with
    | some s, some v, some decs =>
      if !I.inDomain || specSize I decs.length > specLimit then (0, none) else
      match best.get s, replayPhys I decs (initState I) (List.range I.nbRunways) 0 [] with
      | some b, some (_, _, pre) =>
        let dp := b.addI v
        let spec := specExt I pre
        let ok := match dp, spec with
          | none, none => true
          | some x, some y => x == -y
          | _, _ => false
        (4, if ok then none
          else some s!"after the decisions {decs} (value {v}, state `{showSt s}`) the DP model reaches at best {showE dp}, the least delay of the specification is {optInt spec}: the DP model is not exact")
      | _, _ => (0, none)
    | _, _, _ => (0, none)
  | _ => (0, none)

end AlpX

/-- case: `alp | n k r (target latest class)*n sep[0][0] … sep[k-1][k-1] | walks seed reader` -/
def alpCase (toks : List String) (i : List String) : Option Res := do
    let t ← ints? toks
    match t with
    | n :: k :: r :: rest =>
      let n := n.toNat
      let k := k.toNat
      let r := r.toNat
      if rest.length ≠ 3 * n + k * k then none else
      let ac ← Ddo.Examples.Util.triples? (rest.take (3 * n))
      let sep ← Ddo.Examples.Util.rows? k k (rest.drop (3 * n))
      if i == ["panic"] then
        pure { agree := false, phi := false, model := "-", note := "F:C16 [C16:alp model functions panic]" }
      else
      let classes := ac.map (fun a => a.2.2.toNat)
      let target := ac.map (fun a => a.1)
      let latest := ac.map (fun a => a.2.1)
      let I : AlpModel.Inst := { nbClasses := k, nbAircraft := n, nbRunways := r, classes := classes, target := target, latest := latest, sep := sep }
      let evs := ((splitAt ";" i).filter (· ≠ [])).eraseDups
      let inDom := I.inDomain
      -- the best completion of every state the pointwise checks ask about, once per state
      let sts := (evs.flatMap (AlpX.statesOf I)).eraseDups
      let small := sts.filter (fun s => AlpModel.enumSize s ≤ AlpX.enumLimit)
      let best : AlpX.Cache := small.map (fun s => (s, AlpModel.best I s))
      let mut bad : List String := []
      let mut viol : List String := []
      let mut checked : List Nat := [0, 0, 0, 0, 0, 0]
      for e in evs do
        match AlpX.checkEvent I e with
        | none => bad := bad ++ [s!"unreadable event `{join e}`"]
        | some (true, _) => pure ()
        | some (false, m) => bad := bad ++ [s!"`{join e}`: the model says {m}"]
        let (c, v) := AlpX.phiEvent I best e
        checked := checked.modify c (· + 1)
        match v with
        | none => pure ()
        | some v => viol := viol ++ [v]
      let phi := viol.isEmpty || !inDom
      pure { agree := bad.isEmpty, phi := phi,
             model := s!"root {match best.get (AlpModel.initState I) with | some b => AlpX.showE b | none => "?"} events {evs.length} states {sts.length} enumerated {small.length} checks rub {checked.getD 1 0} rx {checked.getD 2 0} dm {checked.getD 3 0} pv {checked.getD 4 0} arr {checked.getD 5 0}{if inDom then "" else " out-of-domain"}{if !inDom && !viol.isEmpty then " (" ++ toString viol.length ++ " pointwise violations, ignored)" else ""}",
             note := (if phi then "" else s!"F:C16 [C16:alp: {viol.head?.getD ""}]")
                     ++ (if bad.isEmpty then "" else " D:exmodel " ++ (bad.head?.getD "")) }
    | _ => none

end Ddo.Engines
