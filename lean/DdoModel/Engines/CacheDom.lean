import DdoModel.Proto
import DdoModel.Engines.Store
import DdoModel.Props.C10c
/-! Driver engine `cachedom` (C09 / C10: the threshold cache and the dominance checker TOGETHER): the counter-examples
    `Ddo.C10c.Twin`, `CrossSim` and `Cross` (`Proofs/CacheDom*.lean`) run through the real solvers.
    `agree`: every sequential run behaves as the composed model says — joint solver `kdsolveLoop` (wrong value), checker alone
    `DSolverCfg.solveLoop`, cache alone `ksolveLoop` (the optimum).  `phi`: every exact run reports the optimum of the case.
    On the current code `phi` fails for the runs with both mechanisms on: open known finding D17. -/
namespace Ddo.Engines
open Ddo Ddo.Proto Ddo.C01 Ddo.Closed Ddo.C09 Ddo.C10 Ddo.C10c

private def showKD (c : Bool × Option Int) : String := s!"{if c.1 then 1 else 0} {match c.2 with | some v => toString v | none => "none"}"

def cachedomEngine (c i : List String) : Option Res := do
  let runs := (splitAt ";" i).filter (· ≠ [])
  let get := fun (n : String) => (runs.find? (fun r => r.head? == some n)).map (fun r => join (r.drop 1))
  match c with
  | [name, opt] =>
    let dvOf : Option (Bool → CutsetKind → DSolverCfg Int Int) := match name with
      | "twin" => some C10c.Twin.dv
      | "crosssim" => some C10c.CrossSim.dv
      | "cross" => some C10c.Cross.dv
      | _ => none
    let dv ← dvOf
    let joint := fun (d : Bool) (k : CutsetKind) => showKD ((dv d k).kdsolveLoop 16 (KDSt.init (dv d k))).st.completion
    let domOnly := fun (d : Bool) (k : CutsetKind) => showKD ((dv d k).solveLoop 16 (dv d k).init).st.completion
    let cacheOnly := fun (d : Bool) (k : CutsetKind) => showKD ((dv d k).sv.ksolveLoop 16 (KSt.init (dv d k).sv)).st.completion
    let want : List (String × String) :=
      [("seq_lel_cache_nodom", cacheOnly false .lel), ("seq_fc_cache_nodom", cacheOnly false .frontier),
       ("seq_lel_nocache_dom", domOnly false .lel), ("seq_fc_nocache_dom", domOnly false .frontier),
       ("seq_lel_cache_dom", joint false .lel), ("seq_fc_cache_dom", joint false .frontier),
       ("seq_lel_cache_dom_nodup", joint true .lel), ("seq_fc_cache_dom_nodup", joint true .frontier)]
    let bad := want.filter (fun (n, m) => get n != some m)
    let wrong := runs.filter (fun r => match r with
      | _ :: "1" :: v :: _ => v != opt
      | [_, "panic"] => true
      | _ => false)
    let phi := wrong.isEmpty
    let txt := s!"[cache-and-dominance on the model {name} (optimum {opt}; correct with the cache alone and with the checker alone) {wrong.length} solver configurations with SimpleCache AND SimpleDominanceChecker report a wrong value as exact, e.g. {join ((wrong.head?).getD [])}]"
    pure { agree := bad.isEmpty, phi := phi, model := join (want.map (fun (n, m) => s!"{n} {m} ;")),
           note := (if phi then "" else s!"F:C09 [C09:{txt.drop 1} F:C10 [C10:{txt.drop 1}")
                   ++ (if bad.isEmpty then "" else s!" D:cachedom {(bad.head?.map (·.1)).getD ""}") }
  | _ => none

end Ddo.Engines
