import DdoModel.Proto
import DdoModel.Engines.Store
import DdoModel.Examples.PspDp
/-! Family `psp` of the driver engine `exmodel` (C16) — `PspDp.lean`; statements in `PspModel.lean`.
    `agree` = every event (the tables the reader built, the spanning-tree table of the bound, variable order, domains,
    transitions, costs, bounds, merges in the order given, relaxed costs, ranking; panics included) is what the model says;
    `phi` = pointwise, by exhaustive enumeration over the remaining periods with the model's own domains, transitions and costs:
    * `rub`: the bound THE CODE returned for the state dominates its value-to-go (`RubOk`), on the states that satisfy the
      layer-validity predicate `validB` (no more units to produce than periods left: an invariant of everything a compilation
      builds; only terminal states with pending units are excluded by it, the other invalid states have no completion);
    * `rx`: for the merged-away state `u`, the merged state `m` THE CODE returned and the relaxed cost `r` THE CODE returned
      for an arc of cost `c` into `u`: `c + H(u) ≤ r + H(m)` (`MergeOk`, potential form of `Wf.lean`: `m` need not offer the
      same completions, only as good ones);
    * `pv`: value of the walk prefix + value-to-go of the state reached = minus the least cost, by the independent
      specification `Psp.lean`, among the feasible plans that extend the prefix (none ↔ none; at the root this is
      `Psp.best`, `PspModel.best_eq_table`): the DP model is exact.
    A `MergeOk` violation on an instance whose changeover costs violate the triangle inequality is named
    `psp-merge-no-triangle` (the min-merge of the example is a relaxation only under that inequality). -/
namespace Ddo.Engines
open Ddo Ddo.Proto Ddo.Examples

namespace PspE
open Ddo.Examples.PspModel

def st? (n : Nat) (ts : List String) : Option St := do
  let xs ← ints? ts
  match xs with
  | t :: nx :: pd => if t < 0 ∨ pd.length ≠ n then none else some { time := t.toNat, next := nx, pd := pd }
  | _ => none
def showSt (s : St) : String := join (toString s.time :: toString s.next :: s.pd.map toString)
def showOrd (o : Ordering) : String := match o with | .lt => "lt" | .eq => "eq" | .gt => "gt"
def showRows (rows : List (List Int)) : String := " , ".intercalate (rows.map (fun r => join (r.map toString)))
def showOI (o : Option Int) : String := match o with | some v => toString v | none => "panic"
def showOS (o : Option St) : String := match o with | some s => showSt s | none => "panic"
def showE (o : EInt) : String := match o with | some v => toString v | none => "-inf"

/-- checks one event against the model; `none` = unreadable, `some (ok, what the model says)` -/
def checkEvent (T : Tab) (e : List String) : Option (Bool × String) :=
  let P := problem T
  let R := relaxation T
  let n := T.n
  match splitAt ":" e with
  | [["dims", a, b]] => some (a == toString T.n && b == toString T.H, s!"{T.n} {T.H}")
  | [("stk" :: ts)] => let m := T.stk.map toString; some (ts == m, join m)
  | [("chg" :: ts)] => let m := showRows T.chg; some (join ts == m, m)
  | [("pdt" :: ts)] => let m := showRows T.prevD; some (join ts == m, m)
  | [("rdt" :: ts)] => let m := showRows T.remD; some (join ts == m, m)
  | [("mst" :: ts)] => let m := T.mst.map toString; some (ts == m, join m)
  | [["nv", k]] => some (k == toString P.nbVars, toString P.nbVars)
  | [("ord" :: ts)] =>
    let want := (List.range (T.H + 2)).map (fun d => match P.nextVar d [P.init] with | some v => toString v | none => "n")
    some (ts == want, join want)
  | ["init" :: s, [v]] =>
    let m := showSt P.init
    some (join s == m && v == toString P.initVal, s!"{m} : {P.initVal}")
  | ["rub" :: s, [r]] => do
    let s ← st? n s
    let m := showOI (rub? T s)
    pure (r == m, m)
  | ["pv" :: s, [v], decs] => do
    -- the value of a walk prefix: replay of its decisions (periods H-1, H-2, …) from the root
    let s ← st? n s; let v ← int? v; let vals ← ints? decs
    let ds := (List.range vals.length).zipWith (fun (k : Nat) (x : Int) => (⟨T.H - 1 - k, x⟩ : Dec)) vals
    match evalFrom P 0 P.init P.initVal ds with
    | some (s2, v2, _) => pure (s2 == s && v2 == v, s!"{showSt s2} : {v2}")
    | none => pure (false, "not a path of the model")
  | ["dom" :: s, [x], vals] => do
    let s ← st? n s; let x ← nat? x
    let m := match domain? T x s with | some l => join (l.map toString) | none => "panic"
    pure (join vals == m, m)
  | ["tr" :: s, [x, v], s2, [c]] => do
    let s ← st? n s; let x ← nat? x; let v ← int? v
    let m2 := showOS (trans? T s ⟨x, v⟩)
    let k := showOI (cost? T s ⟨x, v⟩)
    pure (join s2 == m2 && c == k, s!"{m2} : {k}")
  | ["rx" :: src, dst, m, [x, v], [c], [r]] => do
    let src ← st? n src; let dst ← st? n dst; let m ← st? n m; let x ← nat? x; let v ← int? v; let c ← int? c
    let k := R.relax src dst m ⟨x, v⟩ c
    pure (r == toString k, toString k)
  | ["rk" :: a, b, [o]] => do
    let a ← st? n a; let b ← st? n b
    let m := showOrd (rankCmp a b)
    pure (o == m, m)
  | ("mg" :: first) :: rest =>
    -- `mg s1 , s2 , … : m` — in the order given
    match (first :: rest).reverse with
    | m :: [sts] => do
      let sts ← (splitAt "," sts).mapM (st? n)
      let k := R.merge sts
      pure (join m == showSt k, showSt k)
    | _ => none
  | _ => none

/-- `phi` of one event: `none` = nothing to check or holds; `some (kind, note)` = violated -/
def phiEvent (T : Tab) (tbl : List (Psp.Plan × Int)) (e : List String) : Option (String × String) :=
  let n := T.n
  match splitAt ":" e with
  | ["rub" :: s, [r]] =>
    match st? n s, int? r with
    | some s, some r =>
      if !validB T s || rubOkAt T s r then none
      else some ("psp-rub", s!"fast_upper_bound of the state `{showSt s}` is {r} but a completion is worth {showE (bestRem T s)}: the rough upper bound is not admissible")
    | _, _ => none
  | ["rx" :: _, dst, m, _, [c], [r]] =>
    match st? n dst, st? n m, int? c, int? r with
    | some dst, some m, some c, some r =>
      if mergeOkAt T dst m c r then none
      else some (if triangleB T then "psp-merge" else "psp-merge-no-triangle",
        s!"`{showSt dst}` (value-to-go {showE (bestRem T dst)}, arc cost {c}) merged into `{showSt m}` (value-to-go {showE (bestRem T m)}, relaxed arc cost {r}): merge/relax do not over-approximate"
        ++ (if triangleB T then "" else " (the changeover costs violate the triangle inequality)"))
    | _, _, _, _ => none
  | ["pv" :: s, [v], decs] =>
    match st? n s, int? v, ints? decs with
    | some s, some v, some decs =>
      let dp := (bestRem T s).addI v
      let spec := (specBestExt tbl decs).map (fun c => -c)
      if spec == dp then none
      else some ("psp-exact", s!"after the decisions {decs} (value {v}, state `{showSt s}`) the DP model reaches at best {showE dp}, the specification {showE spec}: the DP model is not exact")
    | _, _, _ => none
  | _ => none

end PspE

/-- case: `psp | T n q(n*n) h(n) d(n*T) | walks seed style` -/
def pspCase (toks : List String) (i : List String) : Option Res := do
    let t ← ints? toks
    match t with
    | hT :: n :: rest =>
      if hT < 1 ∨ n < 1 then none else
      let hT := hT.toNat; let n := n.toNat
      if rest.length ≠ n * n + n + n * hT then none else
      let q ← Ddo.Examples.Util.rows? n n (rest.take (n * n))
      let h := (rest.drop (n * n)).take n
      let d ← Ddo.Examples.Util.rows? hT n (rest.drop (n * n + n))
      if i == ["panic"] then
        pure { agree := false, phi := false, model := "-", note := "F:C16 [C16:psp model functions panic]" }
      else
      let evs := ((splitAt ";" i).filter (· ≠ [])).eraseDups
      let I : Psp.Inst := { T := hT, n := n, q := q, h := h, d := d }
      let T := PspModel.tabOf I
      let tbl := PspModel.specTable I
      let mut bad : List String := []
      let mut viol : List (String × String) := []
      for e in evs do
        match PspE.checkEvent T e with
        | none => bad := bad ++ [s!"unreadable event `{join e}`"]
        | some (true, _) => pure ()
        | some (false, m) => bad := bad ++ [s!"`{join e}`: the model says {m}"]
        match PspE.phiEvent T tbl e with
        | none => pure ()
        | some v => viol := viol ++ [v]
      let merges := evs.filter (fun e => e.head? == some "mg")
      let big := merges.filter (fun e => (e.filter (· == ",")).length ≥ 2)
      -- the first violation that is not the known one, if any, leads the note
      let lead := match viol.find? (fun v => v.1 ≠ "psp-merge-no-triangle") with | some v => some v | none => viol.head?
      pure { agree := bad.isEmpty, phi := viol.isEmpty,
             model := s!"events {evs.length} merges {merges.length} of3+ {big.length} plans {tbl.length}{if PspModel.triangleB T then "" else " no-triangle"}{if viol.isEmpty then "" else s!" violations {viol.length}"}",
             note := (match lead with | none => "" | some v => s!"F:C16 [C16:{v.1}: {v.2}]")
                     ++ (if bad.isEmpty then "" else " D:exmodel " ++ (bad.head?.getD "")) }
    | _ => none

end Ddo.Engines
