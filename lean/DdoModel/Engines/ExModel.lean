import DdoModel.Proto
import DdoModel.Engines.Store
import DdoModel.Examples.KnapsackDp
import DdoModel.Examples.MispDp
import DdoModel.Engines.ExModelM2s
import DdoModel.Engines.ExModelAlp
import DdoModel.Engines.ExModelPsp
import DdoModel.Engines.ExModelMcp
import DdoModel.Engines.ExModelGolomb
import DdoModel.Engines.ExModelSrflp
import DdoModel.Engines.ExModelTalentsched
import DdoModel.Engines.ExModelLcs
import DdoModel.Engines.ExModelTsptw
import DdoModel.Engines.ExModelSop
/-! Driver engine `exmodel` (C16, knapsack and misp): every observation the harness made on the example's own `Problem`,
    `Relaxation` and `StateRanking` implementations (compiled into the harness from the example's source file) is
    recomputed with the Lean model `KnapsackDp.lean` — the model the well-formedness theorems of `KnapsackModel.lean`
    are about.  `phi` = the hypotheses of `knapsack_relaxed_ub` hold for the instance and the variable order the code
    chose (`order` is a permutation of the items, sorted by non-increasing exact ratio), for instances with positive
    weights and non-negative profits.

    misp (`MispDp.lean`, theorems in `MispModel.lean`): same scheme; the events also cover what the example's
    `read_instance` built (weights, complemented adjacency), the dynamic `next_variable` (asked for whole layers),
    `is_impacted_by`, merges; `phi` = the hypotheses of `misp_relaxed_ub` on the instance (one weight per vertex,
    `(n + 2) · max |w| ≤ 2^62`; nothing about the edges). -/
namespace Ddo.Engines
open Ddo Ddo.Proto Ddo.Examples Ddo.Examples.KnapsackModel

private def nats? (ts : List String) : Option (List Nat) := ts.mapM nat?

private def sortedB (items : List (Int × Nat)) : Bool :=
  match items with
  | [] => true
  | a :: r => r.all (fun b => decide (b.1 * (a.2 : Int) ≤ a.1 * (b.2 : Int))) && sortedB r

/-- checks one event; `none` = unreadable, `some (ok, what the model says)` -/
private def checkEvent (I : Inst) (e : List String) : Option (Bool × String) :=
  let P := problem I
  let R := relaxation I
  match e with
  | "ord" :: ts =>
    -- the code's answers for depths 0..n: the order, then `n` (None)
    let want := (List.range (I.profit.length + 1)).map (fun d => match P.nextVar d [] with | some v => toString v | none => "n")
    some (ts == want, join want)
  | ["init", d, c, v] => some ([d, c, v] == [toString P.init.1, toString P.init.2, toString P.initVal], s!"{P.init.1} {P.init.2} {P.initVal}")
  | ["rub", d, c, r] => do
    let d ← nat? d; let c ← nat? c
    let m := R.rub (d, c)
    pure (r == toString m, toString m)
  | "dom" :: d :: c :: x :: vals => do
    let d ← nat? d; let c ← nat? c; let x ← nat? x
    let m := (P.domain x (d, c)).map toString
    let nv := P.nextVar d [(d, c)]
    pure (vals == m && nv == some x, join m)
  | ["tr", d, c, x, v, d2, c2, cost] => do
    let d ← nat? d; let c ← nat? c; let x ← nat? x; let v ← int? v
    let s2 := P.trans (d, c) ⟨x, v⟩
    let k := P.cost (d, c) s2 ⟨x, v⟩
    pure ([d2, c2, cost] == [toString s2.1, toString s2.2, toString k], s!"{s2.1} {s2.2} {k}")
  | "mg" :: rest =>
    match splitAt ":" rest with
    | [sts, [md, mc]] => do
      let sts ← (splitAt "," sts).mapM (fun t => match t with
        | [d, c] => do let d ← nat? d; let c ← nat? c; pure (d, c)
        | _ => none)
      let m := R.merge sts
      pure ([md, mc] == [toString m.1, toString m.2], s!"{m.1} {m.2}")
    | _ => none
  | ["rx", c, r] => do
    let c ← int? c
    let m := R.relax (0, 0) (0, 0) (0, 0) ⟨0, 1⟩ c
    pure (r == toString m, toString m)
  | "rk" :: rest =>
    match splitAt "," rest with
    | [[d1, c1], [d2, c2, o]] => do
      let d1 ← nat? d1; let c1 ← nat? c1; let d2 ← nat? d2; let c2 ← nat? c2
      let m := match rankCmp (d1, c1) (d2, c2) with | .lt => "lt" | .eq => "eq" | .gt => "gt"
      pure (o == m, m)
    | _ => none
  | _ => none


/-! ### misp -/

/-- a state: its members in increasing order, `-` for the empty set -/
private def set? (ts : List String) : Option (List Nat) :=
  if ts == ["-"] then some [] else if ts.isEmpty then none else nats? ts

/-- states separated by `,`; no token at all = no state -/
private def sets? (ts : List String) : Option (List (List Nat)) :=
  if ts.isEmpty then some [] else (splitAt "," ts).mapM set?

private def showSet (s : List Nat) : String := if s.isEmpty then "-" else join (s.map toString)
private def showSets (l : List (List Nat)) : String := " , ".intercalate (l.map showSet)
private def showVar (o : Option Nat) : String := match o with | some v => toString v | none => "n"

/-- checks one event of the misp example; `none` = unreadable, `some (ok, what the model says)` -/
private def checkMisp (I : MispModel.Inst) (e : List String) : Option (Bool × String) :=
  let P := MispModel.problem I
  let R := MispModel.relaxation I
  match splitAt ":" e with
  | [["nv", n]] => some (n == toString P.nbVars, toString P.nbVars)
  | [("inst" :: ws), nbs] => do
    -- what `read_instance` built: the weights, and for every vertex the complement of its adjacency list
    let nbs ← sets? nbs
    let want := (List.range I.n).map (MispModel.Inst.nonNeighbors I)
    pure (ws == I.weight.map toString && nbs == want, s!"{join (I.weight.map toString)} : {showSets want}")
  | [("init" :: s), [v]] => do
    let s ← set? s
    pure (s == P.init && v == toString P.initVal, s!"{showSet P.init} : {P.initVal}")
  | [("rub" :: s), [r]] => do
    let s ← set? s
    pure (r == toString (R.rub s), toString (R.rub s))
  | [["next", d], L, [x]] => do
    let d ← nat? d; let L ← sets? L
    let m := showVar (P.nextVar d L)
    pure (x == m, m)
  | [("imp" :: s), [x], [b]] => do
    let s ← set? s; let x ← nat? x
    pure (b == b2s (P.impacted x s), b2s (P.impacted x s))
  | [("dom" :: s), [x], vals] => do
    let s ← set? s; let x ← nat? x
    let m := (P.domain x s).map toString
    pure (vals == m, join m)
  | [("tr" :: s), [x, v], s2, [c]] => do
    let s ← set? s; let x ← nat? x; let v ← int? v; let s2 ← set? s2
    let m := P.trans s ⟨x, v⟩
    let k := P.cost s m ⟨x, v⟩
    pure (s2 == m && c == toString k, s!"{showSet m} : {k}")
  | [("mg" :: X), m] => do
    let X ← sets? X; let m ← set? m
    pure (m == R.merge X, showSet (R.merge X))
  | [["rx", c], [r]] => do
    let c ← int? c
    let m := R.relax [] [] [] ⟨0, 1⟩ c
    pure (r == toString m, toString m)
  | [("rk" :: ab), [o]] =>
    match splitAt "," ab with
    | [a, b] => do
      let a ← set? a; let b ← set? b
      let m := match MispModel.rankCmp a b with | .lt => "lt" | .eq => "eq" | .gt => "gt"
      pure (o == m, m)
    | _ => none
  | _ => none

/-- case: `misp | n m w_1 … w_n (u v)*m | width seed style` (vertices 1-based, as in the instance file) -/
private def mispCase (toks : List String) (i : List String) : Option Res := do
  let t ← ints? toks
  match t with
  | n :: m :: rest =>
    let n := n.toNat
    let m := m.toNat
    if rest.length ≠ n + 2 * m then none else
    let weight := rest.take n
    let ends := (rest.drop n).map Int.toNat
    if ends.any (fun u => u = 0 ∨ n < u) then none else
    let rec pairs : List Nat → List (Nat × Nat)
      | u :: v :: r => (u - 1, v - 1) :: pairs r
      | _ => []
    let edges := pairs ends
    let I : MispModel.Inst := { n := n, weight := weight, edges := edges }
    if i == ["panic"] ∨ i == ["unreadable"] then
      pure { agree := false, phi := false, model := "-", note := s!"F:C16 [C16:misp model functions: {join i}]" }
    else
    let evs := (splitAt ";" i).filter (· ≠ [])
    let mut bad : List String := []
    for e in evs do
      match checkMisp I e with
      | none => bad := bad ++ [s!"unreadable event `{join e}`"]
      | some (true, _) => pure ()
      | some (false, mm) => bad := bad ++ [s!"`{join e}`: the model says {mm}"]
    -- hypotheses of `misp_relaxed_ub` that concern the instance (`B` = the largest absolute weight)
    let B := weight.foldl (fun b q => max b (max q (-q))) 0
    let phi := weight.length == n && decide (((n : Int) + 2) * B ≤ 4611686018427387904)
    pure { agree := bad.isEmpty, phi := phi, model := s!"events {evs.length}",
           note := (if phi then "" else "F:C16 [C16:misp: ill-formed instance]")
                   ++ (if bad.isEmpty then "" else " D:exmodel " ++ (bad.head?.getD "")) }
  | _ => none

/-- case: `knapsack | n cap p… w… | walks seed` ; impl: events separated by `;` -/
def exmodelEngine (c i : List String) : Option Res := do
  match splitAt "|" c with
  | [["knapsack"], toks, _] =>
    let t ← ints? toks
    match t with
    | n :: cap :: rest =>
      let n := n.toNat
      if rest.length ≠ 2 * n then none else
      let profit := rest.take n
      let weight := (rest.drop n).map Int.toNat
      if i == ["panic"] then
        pure { agree := false, phi := false, model := "-", note := "F:C16 [C16:knapsack model functions panic]" }
      else
      let evs := (splitAt ";" i).filter (· ≠ [])
      -- the order is what the code reveals through next_variable
      let order ← match evs.head? with
        | some ("ord" :: ts) => nats? (ts.takeWhile (· ≠ "n"))
        | _ => none
      let I : Inst := { capacity := cap.toNat, profit := profit, weight := weight, order := order }
      let mut bad : List String := []
      for e in evs do
        match checkEvent I e with
        | none => bad := bad ++ [s!"unreadable event `{join e}`"]
        | some (true, _) => pure ()
        | some (false, m) => bad := bad ++ [s!"`{join e}`: the model says {m}"]
      -- hypotheses of `knapsack_relaxed_ub`
      let isPerm := order.length == n && (List.range n).all (fun k => order.contains k)
      let hyp := isPerm && sortedB (I.itemsFrom 0)
      let inDomain := weight.all (0 < ·) && profit.all (0 ≤ ·)
      let phi := !inDomain || hyp
      pure { agree := bad.isEmpty, phi := phi, model := s!"order {order}",
             note := (if phi then "" else s!"F:C16 [C16:knapsack: the variable order {order} chosen by Knapsack::new is not a permutation sorted by non-increasing profit/weight ratio: the Dantzig bound is not admissible]")
                     ++ (if bad.isEmpty then "" else " D:exmodel " ++ (bad.head?.getD "")) }
    | _ => none
  | [["misp"], toks, _] => mispCase toks i
  | [["max2sat"], toks, _] => max2satCase toks i
  | [["alp"], toks, _] => alpCase toks i
  | [["psp"], toks, _] => pspCase toks i
  | [["mcp"], toks, _] => mcpCase toks i
  | [["golomb"], toks, _] => golombCase toks i
  | [["srflp"], toks, opts] => srflpCase toks opts i
  | [["talentsched"], toks, u] => talentschedCase toks u i
  | [["lcs"], toks, _] => lcsCase toks i
  | [["tsptw"], toks, _] => tsptwCase toks i
  | [["sop"], toks, _] => sopCase toks i
  | _ => none

end Ddo.Engines
