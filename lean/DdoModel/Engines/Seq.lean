import DdoModel.Proto
import DdoModel.SeqSolver
import DdoModel.Families
import DdoModel.Engines.Mdd
import DdoModel.Engines.Small
/-! Driver engines `seq` (tape validation of the sequential solver) and `seqcut` (bounds at every
    cutoff index).

`seq`: the harness ran the real `SequentialSolver` with recording wrappers around the real diagram,
cache and fringe.  The tape lists every call the solver made to them (arguments and answers).  The
Lean solver model (`SeqSolver.lean`) is run against the tape: the *answers* (what a compilation
returned, which maximal node the fringe popped, what the cache said) are read from the tape, every
*call* (which operation, with which arguments: the node handed to `compile`, its `best_lb`, the
width, the (uncapped) bound of every pushed cut-set node, the cleared cache layers, …) must be exactly
the one the model makes next, and the final `Completion`, bounds and `explored` must coincide.
`phi` evaluates C01 / C02 / C05 / C14 on the final outputs against the exact optimum of the instance. -/
namespace Ddo.Engines
open Ddo.Proto

structure SCfg where
  kind : Nat
  cache : Bool
  nodup : Bool
  w : WExpr
  primal : Option (Int × List Dec)
  stopAt : Option Nat

def parseSCfg (parts : List (List String)) : Option SCfg := do
  match parts with
  | [a, wt, pt, sa] =>
    match a with
    | [k, c, nd] =>
      let (w, _) ← parseW wt
      let primal ← match pt with
        | ["none"] => pure none
        | v :: rest => do
          let v ← int? v
          let p ← if rest == ["e"] then pure [] else (ints? rest).map parseDecs
          pure (some (v, p))
        | _ => none
      let sa ← (sa.head?.bind int?)
      pure { kind := (← nat? k), cache := c == "1", nodup := nd == "1", w := w, primal := primal, stopAt := if sa < 0 then none else some sa.toNat }
    | _ => none
  | _ => none

/-- a sub-problem as printed on the tape: state depth value ub pathLen -/
structure TSub where
  state : Int
  depth : Nat
  value : Int
  ub : Int
  plen : Nat
deriving DecidableEq

def parseTSub : List String → Option TSub
  | [s, d, v, ub, pl] => do pure ⟨← int? s, ← nat? d, ← int? v, ← int? ub, ← nat? pl⟩
  | _ => none

def TSub.toSubP (t : TSub) : SubP Int := { state := t.state, value := t.value, path := List.replicate t.plen ⟨0, 0⟩, ub := t.ub, depth := t.depth }
def subEq (a : SubP Int) (t : TSub) : Bool := a.state == t.state && a.depth == t.depth && a.value == t.value && a.ub == t.ub && a.path.length == t.plen

/-- parse `k` sub-problems of 5 tokens each -/
def parseTSubs : Nat → List String → Option (List TSub)
  | 0, _ => some []
  | k + 1, s :: d :: v :: ub :: pl :: r => do
    let x ← parseTSub [s, d, v, ub, pl]
    let xs ← parseTSubs k r
    pure (x :: xs)
  | _, _ => none

inductive SimErr | mismatch (at_ : Nat) (why : String)

/-- result of the simulation: final model state or the first mismatch -/
abbrev Sim := Except String

def expectHead (tape : List (List String)) (what : String) : Sim (List String × List (List String)) :=
  match tape with
  | e :: r => .ok (e, r)
  | [] => .error s!"tape ended, expected {what}"

def removeFirst (q : List (SubP Int)) (t : TSub) : Option (List (SubP Int)) :=
  match q with
  | [] => none
  | y :: r => if subEq y t then some r else (removeFirst r t).map (y :: ·)

/-- one compilation on the tape: `DC ctype width <sub> lb > ok e bv | cut`, then `DV`, `DS` as the solver asks -/
def readCompile (tape : List (List String)) (ctype : Nat) (width : Nat) (node : SubP Int) (lb : Int) :
    Sim (Option (Bool) × List (List String)) := do
  let (e, tape) ← expectHead tape "DC"
  match splitAt ">" e with
  | [call, res] =>
    match call with
    | "DC" :: ct :: w :: rest =>
      let sub := rest.take 5
      let lbT := rest.drop 5
      match parseTSub sub with
      | none => .error "unreadable DC"
      | some t =>
        if ct != toString ctype then .error s!"compile: expected type {ctype}, tape has {ct}"
        else if w != toString width then .error s!"compile: expected max_width {width}, tape has {w}"
        else if !(subEq node t) then .error "compile: residual differs from the popped node"
        else if lbT != [toString lb] then .error s!"compile: expected best_lb {lb}, tape has {lbT}"
        else match res with
          | ["cut"] => .ok (none, tape)
          | ["ok", ex, _] => .ok (some (ex == "1"), tape)
          | _ => .error "unreadable DC result"
    | _ => .error s!"expected a compilation, tape has {e}"
  | _ => .error s!"expected a compilation, tape has {e}"

/-- `maybe_update_best`: `DV bev`, and `DS sol` iff `bev > lb` -/
def readUpdate (tape : List (List String)) (st : SeqSt Int) : Sim (SeqSt Int × List (List String)) := do
  let (e, tape) ← expectHead tape "DV"
  match e with
  | ["DV", v] =>
    match v.toInt? with
    | none => .ok (st, tape)
    | some w =>
      if w > st.bestLb then
        let (e2, tape) ← expectHead tape "DS"
        match e2 with
        | "DS" :: sol =>
          let p := if sol == ["none"] then none else if sol == ["e"] then some [] else (ints? sol).map parseDecs
          .ok (st.updateBest { isExact := false, bestExact := some w, bestExactSol := p, cutset := [] }, tape)
        | _ => .error "expected best_exact_solution() after an improving best_exact_value()"
      else .ok (st, tape)
  | _ => .error s!"expected best_exact_value(), tape has {e}"

/-- `enqueue_cutset`: `DD k subs…`, then for every kept node `FL before ; FP node' ; FL after` -/
def readEnqueue (tape : List (List String)) (dedup : Bool) (st : SeqSt Int) : Sim (SeqSt Int × List (List String)) := do
  let (e, tape) ← expectHead tape "DD"
  match e with
  | "DD" :: k :: rest =>
    match (nat? k).bind (fun k => parseTSubs k rest) with
    | none => .error "unreadable DD"
    | some subs =>
      let rec go (st : SeqSt Int) (tape : List (List String)) : List TSub → Sim (SeqSt Int × List (List String))
        | [] => .ok (st, tape)
        | c :: cs =>
          -- since the repair of D14 the node is pushed with the bound its diagram gave it (no cap by the parent's bound)
          let c' : TSub := c
          if c'.ub > st.bestLb then
            match tape with
            | ["FL", b] :: ("FP" :: pt) :: ["FL", a] :: tape' =>
              if b != toString st.fringe.length then .error s!"enqueue: fringe length before push: model {st.fringe.length}, tape {b}"
              else if parseTSub pt != some c' then .error "enqueue: pushed node differs (state / depth / value / ub: the cut-set node's own bound, not capped)"
              else
                let st' := st.enqueue dedup [c.toSubP]
                if a != toString st'.fringe.length then .error s!"enqueue: fringe length after push: model {st'.fringe.length}, tape {a}"
                else go st' tape' cs
            | _ => .error "enqueue: expected len / push / len"
          else go st tape cs
      go st tape subs
  | _ => .error s!"expected drain_cutset, tape has {e}"

/-- the main loop; `fuel` bounds the number of pops -/
def simLoop (nbVars : Nat) (cfg : SCfg) : Nat → SeqSt Int → List (List String) → Sim (SeqSt Int × List (List String))
  | 0, _, _ => .error "simulation fuel exhausted"
  | fuel + 1, st, tape => do
    -- cache cleaning loop
    let fa' := cleanLoop nbVars st.openByLayer (nbVars + 1) st.firstActive
    let rec clears (d : Nat) (n : Nat) (tape : List (List String)) : Sim (List (List String)) :=
      match n with
      | 0 => .ok tape
      | n + 1 => match tape with
        | ["CL", x] :: r => if x == toString d then clears (d + 1) n r else .error s!"expected clear_layer({d}), tape has clear_layer({x})"
        | e :: _ => .error s!"expected clear_layer({d}), tape has {e}"
        | [] => .error "tape ended in the cache cleaning loop"
    let tape ← clears st.firstActive (fa' - st.firstActive) tape
    let st := { st with firstActive := fa' }
    -- is_empty
    let (e, tape) ← expectHead tape "FL"
    match e with
    | ["FL", n] =>
      if n != toString st.fringe.length then .error s!"fringe length: model {st.fringe.length}, tape {n}"
      else if st.fringe.isEmpty then .ok (st.complete, tape)
      else
        let (e, tape) ← expectHead tape "FO"
        match e with
        | "FO" :: pt =>
          match parseTSub pt with
          | none => .error "pop returned none on a non-empty fringe"
          | some t =>
            match removeFirst st.fringe t with
            | none => .error "popped node is not in the model's fringe"
            | some rest =>
              if rest.any (fun y => y.ub > t.ub || (y.ub == t.ub && y.value > t.value)) then .error "popped node is not maximal for (ub, value)" else
              let node := (st.fringe.find? (fun y => subEq y t)).getD t.toSubP
              let st := ({ st with fringe := rest }).afterPop node
              if st.crashed then .error "open_by_layer underflow in the model (the real code would panic)" else
              -- process_one_node
              if node.ub ≤ st.bestLb then simLoop nbVars cfg fuel st tape
              else
                let (e, tape) ← expectHead tape "CM"
                match splitAt ">" e with
                | ["CM" :: pt, [b]] =>
                  if !(parseTSub pt == some t) then .error "must_explore called with another node" else
                  if b == "0" then simLoop nbVars cfg fuel st tape else
                  match cfg.w.eval node.path.length with
                  | none => .error "width heuristic panics in the model"
                  | some width =>
                    let (r, tape) ← readCompile tape 2 width node st.bestLb
                    match r with
                    | none =>
                      match tape with
                      | ["FC"] :: ["CC"] :: tape' => .ok (st.abortSearch, tape')
                      | _ => .error "after a cutoff: expected fringe.clear ; cache.clear"
                    | some rExact =>
                      let (st, tape) ← readUpdate tape st
                      if rExact then simLoop nbVars cfg fuel st tape else
                      let (x, tape) ← readCompile tape 1 width node st.bestLb
                      match x with
                      | none =>
                        match tape with
                        | ["FC"] :: ["CC"] :: tape' => .ok (st.abortSearch, tape')
                        | _ => .error "after a cutoff: expected fringe.clear ; cache.clear"
                      | some xExact =>
                        let (st, tape) ← readUpdate tape st
                        if xExact then simLoop nbVars cfg fuel st tape else
                        let (st, tape) ← readEnqueue tape cfg.nodup st
                        if st.crashed then .error "open_by_layer index out of range in the model" else
                        simLoop nbVars cfg fuel st tape
                | _ => .error s!"expected must_explore, tape has {e}"
        | _ => .error s!"expected pop, tape has {e}"
    | _ => .error s!"expected len (is_empty), tape has {e}"

def simulate (fam : Fam) (cfg : SCfg) (tape : List (List String)) : Sim (SeqSt Int) := do
  let P := fam.problem
  let st0 : SeqSt Int := SeqSt.init P cfg.primal cfg.nodup
  match tape with
  | ["CI"] :: ("FP" :: pt) :: tape =>
    if parseTSub pt != some ⟨P.init, 0, P.initVal, iMax, 0⟩ then .error "root node differs"
    else
      let (st, rest) ← simLoop P.nbVars cfg 100000 st0 tape
      if rest.isEmpty then .ok st else .error s!"tape not consumed: {rest.head!}"
  | _ => .error "tape does not start with initialize ; push(root)"

/-- at most one decision per variable -/
def nodupVars (p : List Dec) : Bool := (p.map (·.var)).Nodup

/-- phi on the final outputs -/
def phiSolver (fam : Fam) (pooled : Bool) (primal : Option (Int × List Dec)) (interrupted : Bool)
    (exact : Bool) (value : Option Int) (lb ub : Int) (sol : Option (List Dec)) (cutoffConfigured : Bool := false) : List String := Id.run do
  let P := fam.problem
  let opt : EInt := (fam.H 0 P.init).addI P.initVal
  let mut f : List String := []
  let target : EInt := match primal with
    | some (v, _) => EInt.max (some v) opt
    | none => opt
  -- C02: value / solution coherence
  match value, sol with
  | some v, some p =>
    if v != lb then f := "C02:reported value differs from best_lower_bound()" :: f
    if !(nodupVars p) then f := "C02:several decisions for one variable" :: f
    -- C14: a later set_primal with an equal or smaller value (marker solutions 77 / 78) must not replace the incumbent
    if p.any (fun d => d.val == 77 || d.val == 78) then f := "C14:set_primal replaced the incumbent although the new value was not strictly greater" :: f
    let root : SubP Int := { state := P.init, value := P.initVal, path := [], ub := iMax, depth := 0 }
    -- a solution handed in by the caller may be returned unchanged
    let isCallers := match primal with | some (pv, pp) => pv == v && sortDecs pp == sortDecs p | none => false
    if !isCallers && !(isCompletion P root p v pooled) then f := "C02:reported solution does not replay to the reported value" :: f
  | some _, none => f := "C02:value without solution" :: f
  | none, some _ => f := "C02:solution without value" :: f
  | none, none => if lb != iMin && primal.isNone then f := "C02:lower bound without value" :: f
  if !interrupted then
    if !exact then f := "C01:uninterrupted run not reported exact" :: f
    if value != target then f := ((if primal.isSome then "C14" else "C01") ++ s!":final value {value} differs from the optimum {target}") :: f
    if value.isSome && ub != lb then f := "C02:after an uninterrupted run best_upper_bound() differs from the value" :: f
    -- C05, last clause: in a run whose cutoff may have answered 'stop', is_exact is reported only with the optimum
    if cutoffConfigured && exact && value != target then f := "C05:is_exact reported but the value is not the optimum" :: f
  else
    -- C05
    match target with
    | some o =>
      if lb > o then f := "C05:lower bound above the optimum" :: f
      if ub < o then f := "C05:upper bound below the optimum after a cutoff" :: f
    | none => if value.isSome then f := "C05:value reported for an infeasible problem" :: f
    if exact && value != target then f := "C05:is_exact reported but the value is not the optimum" :: f
  return f

/-- a solver run with the threshold cache / a dominance rule that ends with a wrong value or a wrong exactness claim also
    breaks C09 (caching solvers return the same optimum) / C10 (the dominance checker never changes the optimum) -/
def withFeatureFails (cache dominance : Bool) (fails : List String) : List String :=
  let bad := fails.filter (fun s => (s.startsWith "C01:" || s.startsWith "C03:" || s.startsWith "C14:" || s.startsWith "C05:is_exact") &&
    ((s.splitOn "final value").length > 1 || (s.splitOn "is_exact").length > 1 || (s.splitOn "not reported exact").length > 1))
  fails ++ (if cache then bad.map (fun s => "C09:caching solver: " ++ s) else [])
        ++ (if dominance then bad.map (fun s => "C10:solver with the dominance checker: " ++ s) else [])

/-- C17 on a solver's own gap() (a solver may override the trait's default method); `gapT` = `g <float tokens>` or empty -/
def gapFails (lb ub : Int) (gapT : List String) : List String :=
  match gapT with
  | "g" :: g =>
    (match parseFOut g with
     | some x => if phiGap lb ub x then [] else [s!"C17:gap() of the solver breaks the property for its bounds lb = {lb}, ub = {ub}: {join g}"]
     | none => if g == ["panic"] then [s!"C17:gap() of the solver panics for its bounds lb = {lb}, ub = {ub}"] else [])
  | _ => []

def failNote (fails : List String) : String :=
  if fails.isEmpty then "" else join (fails.map (fun s => "F:" ++ (s.splitOn ":").head! ++ " [" ++ s ++ "]"))

def seqEngine (c i : List String) : Option Res := do
  match splitAt "|" c with
  | famT :: cfgParts =>
    let (fam, _) ← parseFam famT
    let cfg ← parseSCfg cfgParts
    match splitAt "|" i with
    | [outT, solT, gapT, tapeT] =>
      match outT with
      | [ex, bv, lb, ub, explored, polls] =>
        let lb ← int? lb; let ub ← int? ub; let explored ← nat? explored; let _ := polls
        let value := bv.toInt?
        let sol := if solT == ["none"] then none else if solT == ["e"] then some [] else (ints? solT).map parseDecs
        let tape := (splitAt ";" tapeT).filter (· ≠ [])
        let sim := simulate fam cfg tape
        let (agree, why, ms) := match sim with
          | .error e => (false, e, "tape rejected: " ++ e)
          | .ok st =>
            let (mex, mval) := st.completion
            let ok := b2s mex == ex && mval == value && st.bestLb == lb && st.bestUb == ub && st.explored == explored
            (ok, if ok then "" else "final state differs", s!"{b2s mex} {optInt mval} {st.bestLb} {st.bestUb} {st.explored}")
        let interrupted := ex == "0"
        let fails := withFeatureFails cfg.cache fam.domRule.isSome (phiSolver fam (cfg.kind == 2) cfg.primal interrupted (ex == "1") value lb ub sol cfg.stopAt.isSome)
        -- C15: with long arcs the pooled solver must behave like the others.  A wrong value in a run WITH the threshold cache is what
        -- the open finding D5 produces (the re-enqueued root is pruned by the cache): same key as the non-termination; without cache
        -- D5 can only loop, so a wrong value there is something else
        -- C17 on the solver's own gap() (a solver may override the trait's default method)
        let fails := match parseFOut gapT with
          | some g => if phiGap lb ub g then fails else s!"C17:gap() of the solver breaks the property for its bounds lb = {lb}, ub = {ub}: {join gapT}" :: fails
          | none => if gapT == ["panic"] then s!"C17:gap() of the solver panics for its bounds lb = {lb}, ub = {ub}" :: fails else fails
        let fails := if cfg.kind == 2 && !(allImpacted fam) then
            fails ++ (fails.filter (fun s => s.startsWith "C01:" || s.startsWith "C02:reported solution" || s.startsWith "C02:several")).map
              (fun s => (if cfg.cache then "C15:pooled-long-arcs (with cache) " else "C15:long arcs, no cache: ") ++ s)
          else fails
        pure { agree := agree, phi := fails.isEmpty, model := ms, note := failNote fails ++ (if agree then "" else " TAPE: " ++ why) }
      | _ => none
    | [["hang"]] | [["hang"], _] =>
      let note := if cfg.kind == 2 && !(allImpacted fam) then
          "F:C15 [C15:pooled-long-arcs the solver does not terminate: the root of a pooled diagram keeps being handed out by its own cut-set (pop cap exceeded)]"
        else "F:C01 [C01:the solver does not terminate (pop cap exceeded)] F:C15 [C15:the solver does not terminate (pop cap exceeded)]"
      pure { agree := true, phi := false, model := "-", note := note }
    | [["panic"]] | [["panic"], _] =>
      pure { agree := false, phi := false, model := "-", note := "F:C01 [C01:the solver panics]" }
    | _ => none
  | _ => none

/-- `seqcut`: outcomes for k = 1..K+1; C05 at every k, C19 monotonicity, C02 coherence -/
def seqcutEngine (c i : List String) : Option Res := do
  match splitAt "|" c with
  | famT :: cfgParts =>
    let (fam, _) ← parseFam famT
    let cfg ← parseSCfg cfgParts
    match splitAt ";;" i with
    | kT :: rows =>
      let kmax ← kT.head?.bind nat?
      if rows.length ≠ kmax + 1 then none else
      let parsed ← rows.mapM (fun r => match splitAt "|" r with
        | [[ex, bv, lb, ub, _, _], solT, _] => do
          let lb ← int? lb; let ub ← int? ub
          let sol := if solT == ["none"] then none else if solT == ["e"] then some [] else (ints? solT).map parseDecs
          pure (ex == "1", bv.toInt?, lb, ub, sol)
        | _ => none)
      let fails : List String := Id.run do
        let mut f : List String := []
        let mut idx := 0
        for (ex, v, lb, ub, sol) in parsed do
          idx := idx + 1
          let interrupted := idx ≤ kmax && !ex
          f := (phiSolver fam (cfg.kind == 2) cfg.primal interrupted ex v lb ub sol (idx ≤ kmax)).map (fun s => s ++ s!" (cutoff at poll {idx})") ++ f
        -- C19: monotone in k
        let lbs := parsed.map (fun (_, _, lb, _, _) => lb)
        let ubs := parsed.map (fun (_, _, _, ub, _) => ub)
        if !((lbs.zip (lbs.drop 1)).all (fun (a, b) => decide (a ≤ b))) then f := "C19:lower bound decreases when the cutoff fires later" :: f
        if !((ubs.zip (ubs.drop 1)).all (fun (a, b) => decide (a ≥ b))) then f := "C19:upper bound increases when the cutoff fires later" :: f
        match parsed.getLast? with
        | some (ex, _, lb, ub, _) => if !ex || lb != ub then f := "C19:the uninterrupted run is not exact with both bounds equal" :: f
        | none => pure ()
        return f
      pure { agree := true, phi := fails.isEmpty, model := "(phi only)", note := failNote fails }
    | _ => none
  | _ => none

end Ddo.Engines
