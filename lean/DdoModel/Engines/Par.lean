import DdoModel.ParSolver
import DdoModel.ParSysExec
import DdoModel.Proofs.ParSync
import DdoModel.Engines.Seq
/-! Driver engine `par`: trace validation of the parallel solver under the controlled scheduler.
    The tape is the linearised run: `w<i> @ <section>` marks worker `i` entering a critical section,
    the entries that follow (same worker) are the calls it makes to fringe / cache / diagram until its
    next section; `WAIT`, `EXIT`, `CRASH` are the condvar wait, the end of the worker and a panic.
    The model (`ParSolver.lean`) replays it: every section must be the one the worker's program counter
    expects, every call inside must be the model's, the shared state evolves by the model's functions,
    and the final `Completion`, bounds and `explored` must coincide.
    `phi`: C03 (optimum, exact), C04 (no deadlock, no crash, terminates), C05 / C02 (bounds and solution
    after a cutoff).

    **Link with the transition system `ParSys`** (the object of the theorems of `Props/C03b.lean`): for the runs
    `ParSys` covers (no threshold cache) the validator keeps, next to its own state, a `ParSys.Sys Int` that
    it advances by the executable step function `ParSys.Sys.exec` (`DdoModel/ParSysExec.lean`) with the
    action(s) that correspond to the section just validated (`sysAdvance`).  The trace is rejected
    (`D:parsys …`) if `exec` refuses an action, and after every section the shared records of the two states
    must coincide (`ParSys.critAgree`: every field but `first_active_layer`) and every worker's program counter
    must be the image of its `ParSys.WSt` (`wAgree`).  `exec` is proved sound for `ParSys.StepG`
    (`Proofs/ParSysExecSound.lean`: `exec_sound`, `execRun_sound`), so every accepted cache-less trace *is* a
    `Run` of `ParSys` from `Sys.init` that ends in the validator's final shared record. -/
namespace Ddo.Engines
open Ddo.Proto
open Ddo.ParSys (Sys WSt Action)

inductive CRes | cut | ok (exact : Bool)
deriving DecidableEq

inductive WPc
  | notStarted | idle | waiting | exiting | gone | crashedW
  | readLb1 (n : SubP Int)                     -- holds `n`; next section: read_lb
  | compR (n : SubP Int) (lb : Int)            -- next entry: DC restricted
  | upd1 (n : SubP Int) (ex : Bool)            -- next section: update_best
  | abortS (n : SubP Int)                      -- next section: abort_search
  | readLb2 (n : SubP Int)
  | compX (n : SubP Int) (lb : Int)
  | upd2 (n : SubP Int) (ex : Bool)
  | enq (n : SubP Int)
  | fin (n : SubP Int) (thenExit : Bool)       -- next section: notify_finished

structure PSim where
  c : ParCrit Int
  pcs : List WPc
  cfg : SCfg
  nbVars : Nat
  sys : Option (Sys Int) := none      -- the `ParSys` state advanced by `Sys.exec` (runs without threshold cache)

def setPc (s : PSim) (i : Nat) (p : WPc) : PSim := { s with pcs := s.pcs.set i p }

/-- abstraction of the executable model's state to the synchronisation skeleton `ParSync` (C04) -/
def absPc : WPc → ParSync.Pc
  | .notStarted | .idle => .idle
  | .waiting => .waiting
  | .exiting | .gone => .done
  | .crashedW => .crashed
  | .fin _ true => .aborting
  | _ => .held
def absSt (s : PSim) : ParSync.PSt :=
  { fringe := s.c.base.fringe.length, ongoing := s.c.ongoing, abort := s.c.base.abort, pcs := s.pcs.map absPc, ubSlots := s.c.upperBounds.length }

/-- entries of worker `i` that follow, up to (not including) the next marker -/
def takeSection (i : String) : List (List String) → List (List String) × List (List String)
  | [] => ([], [])
  | e :: r =>
    match e with
    | w :: "@" :: _ => ([], e :: r)
    | [_, "WAIT"] | [_, "EXIT"] | [_, "CRASH"] => ([], e :: r)
    | w :: body => if w == i then let (a, b) := takeSection i r; (body :: a, b) else ([], e :: r)
    | [] => takeSection i r

/-- `get_workload` of thread `i` against the entries recorded inside the section -/
def simGetWorkload (s : PSim) (i : Nat) (ents : List (List String)) :
    Except String (ParCrit Int × WorkLoad Int × List (SubP Int × Bool)) := do
  -- third component: the nodes the fringe handed out, each with the cache's `must_explore` answer
  let c := s.c
  -- cache cleaning
  let fa' := cleanLoopPar s.nbVars c.base.openByLayer c.ongoingByLayer (s.nbVars + 1) c.base.firstActive
  let nclear := fa' - c.base.firstActive
  let cls := ents.take nclear
  let want := (List.range nclear).map (fun k => ["CL", toString (c.base.firstActive + k)])
  if cls != want then throw s!"get_workload: cleared layers {cls}, model expects {want}"
  let ents := ents.drop nclear
  let c := { c with base := { c.base with firstActive := fa' } }
  -- do we need to stop (tested first since fix D4)
  if c.base.abort then
    if ents != [] then throw "get_workload: calls after Aborted" else return (c, .aborted, [])
  -- are we done?
  let (ents, done) ← (if c.ongoing == 0 then
      match ents with
      | ["FL", n] :: r =>
        if n != toString c.base.fringe.length then throw s!"get_workload: fringe length {n}, model {c.base.fringe.length}"
        else pure (r, c.base.fringe.isEmpty)
      | _ => throw "get_workload: expected is_empty() for the completion test"
    else pure (ents, false) : Except String (List (List String) × Bool))
  if done then
    if ents != [] then throw "get_workload: calls after Complete" else return (c.complete, .complete, [])
  match ents with
  | ["FL", n] :: ents =>
    if n != toString c.base.fringe.length then throw s!"get_workload: fringe length {n}, model {c.base.fringe.length}"
    if c.base.fringe.isEmpty then
      if ents != [] then throw "get_workload: calls after the empty-fringe test" else return (c, .wait, [])
    -- pop loop
    let rec loop (fuel : Nat) (c : ParCrit Int) (ents : List (List String)) (pops : List (SubP Int × Bool)) :
        Except String (ParCrit Int × WorkLoad Int × List (SubP Int × Bool)) := do
      match fuel with
      | 0 => throw "pop loop fuel"
      | fuel + 1 =>
        match ents with
        | ("FO" :: pt) :: ents =>
          match parseTSub pt with
          | none => throw "get_workload: pop returned none on a non-empty fringe"
          | some t =>
            match removeFirst c.base.fringe t with
            | none => throw "get_workload: popped node is not in the model's fringe"
            | some rest =>
              if rest.any (fun y => y.ub > t.ub || (y.ub == t.ub && y.value > t.value)) then throw "get_workload: popped node is not maximal"
              let nn := (c.base.fringe.find? (fun y => subEq y t)).getD t.toSubP
              let c := { c with base := { c.base with fringe := rest } }
              if nn.ub ≤ c.base.bestLb then
                if ents != [["FC"]] then throw "get_workload: expected fringe.clear() after popping a node below the incumbent"
                return ({ c with base := { c.base with fringe := [], openByLayer := c.base.openByLayer.map (fun _ => 0) } }, .starvation, pops ++ [(nn, true)])
              match ents with
              | e :: ents =>
                match splitAt ">" e with
                | ["CM" :: pt2, [b]] =>
                  if parseTSub pt2 != some t then throw "get_workload: must_explore on another node"
                  if b == "1" then
                    match ents with
                    | [["CU", st, d, v, ex]] =>
                      if st != toString nn.state || d != toString nn.depth || v != toString nn.value || ex != "1" then throw "get_workload: pop-time threshold write differs"
                      match c.take i nn with
                      | some c' => return (c', .item nn, pops ++ [(nn, true)])
                      | none => return (c.takeCrash, .crash, pops ++ [(nn, true)])
                    | _ => throw "get_workload: expected the pop-time threshold write (explored = true)"
                  else
                    match decLayer c.base.openByLayer nn.depth with
                    | none => throw "get_workload: open_by_layer underflow in the model"
                    | some l =>
                      let c := { c with base := { c.base with openByLayer := l } }
                      match ents with
                      | ["FL", n] :: ents =>
                        if n != toString c.base.fringe.length then throw "get_workload: fringe length (skip loop)"
                        if c.base.fringe.isEmpty then
                          if ents != [] then throw "get_workload: calls after Starvation" else return (c, .starvation, pops ++ [(nn, false)])
                        loop fuel c ents (pops ++ [(nn, false)])
                      | _ => throw "get_workload: expected is_empty() after a node refused by the cache"
                | _ => throw s!"get_workload: expected must_explore, tape has {e}"
              | [] => throw "get_workload: section ended after a pop"
        | e :: _ => throw s!"get_workload: expected pop, tape has {e}"
        | [] => throw "get_workload: section ended before a pop"
    loop 100000 c ents []
  | _ => throw "get_workload: expected is_empty()"

def parseDC (e : List String) : Option (Nat × Nat × TSub × Int × CRes) :=
  match splitAt ">" e with
  | ["DC" :: ct :: w :: rest, res] => do
    let t ← parseTSub (rest.take 5)
    let lb ← (rest.drop 5).head?.bind int?
    let r ← match res with
      | ["cut"] => some CRes.cut
      | ["ok", ex, _] => some (CRes.ok (ex == "1"))
      | _ => none
    pure ((← nat? ct), (← nat? w), t, lb, r)
  | _ => none

/-! ### the link with `ParSys`: actions of a section, lock-step execution by `Sys.exec` -/

/-- the first section of worker `w` in what follows: its label, its entries, the tape after it -/
def nextSection (w : String) : List (List String) → Option (String × List (List String) × List (List String))
  | [] => none
  | e :: r =>
    match e with
    | [w', "@", label] => if w' == w then (let (a, b) := takeSection w r; some (label, a, b)) else nextSection w r
    | _ => nextSection w r

/-- The diagram a successful compilation of worker `w` produced, as `ParSys` wants it (`DDOut`: the whole answer
    at once).  The tape reveals it piecewise: the `is_exact` flag with the `DC` entry, `best_exact_value()` /
    `best_exact_solution()` inside the worker's next section (`update_best`: `DV`, and `DS` iff improving) and,
    for a relaxed diagram that is not exact, the cut-set inside the one after (`enqueue_cutset`: `DD`).
    `ahead` is the tape after the compilation.  (A run that stops before those sections never uses the missing
    parts; the validator's own replay of `update_best` / `enqueue_cutset` and the comparison of the shared
    records after each of them check that what was assembled here is what the solver then used.) -/
def aheadOut (w : String) (ex relaxed : Bool) (ahead : List (List String)) : DDOut Int :=
  match nextSection w ahead with
  | some ("update_best", ["DV", v] :: more, ahead') =>
    let sol := match more with
      | ("DS" :: sol) :: _ => if sol == ["none"] then none else if sol == ["e"] then some [] else (ints? sol).map parseDecs
      | _ => none
    let cs := if relaxed && !ex then
        (match nextSection w ahead' with
         | some ("enqueue_cutset", ("DD" :: k :: rest) :: _, _) =>
           (((nat? k).bind (fun k => parseTSubs k rest)).getD []).map TSub.toSubP
         | _ => [])
      else []
    { isExact := ex, bestExact := v.toInt?, bestExactSol := sol, cutset := cs }
  | _ => { isExact := ex, bestExact := none, bestExactSol := none, cutset := [] }

/-- the program counter of the validator is the image of the worker state of `ParSys` -/
def wAgree : WPc → WSt Int → Bool
  | .notStarted, .idle | .idle, .idle | .waiting, .waiting | .exiting, .done | .gone, .done => true
  | .crashedW, .crashed _ => true
  | .readLb1 n, .readR m => n == m
  | .compR n lb, .compR m lb' => n == m && lb == lb'
  | .upd1 n ex, .updR m _ o => n == m && ex == o.isExact
  | .abortS n, .abortS m => n == m
  | .readLb2 n, .readX m => n == m
  | .compX n lb, .compX m lb' => n == m && lb == lb'
  | .upd2 n ex, .updX m _ o => n == m && ex == o.isExact
  | .enq n, .enq m _ _ => n == m
  | .fin n te, .fin m te' => n == m && te == te'
  | _, _ => false

def wsAgree : List WPc → List (WSt Int) → Bool
  | [], [] => true
  | p :: ps, w :: ws => wAgree p w && wsAgree ps ws
  | _, _ => false

/-- which fields of the two shared records differ (diagnostic) -/
def critDiff (a b : ParCrit Int) : String :=
  let f := fun (n : String) (ok : Bool) => if ok then "" else " " ++ n
  f "fringe" (a.base.fringe == b.base.fringe) ++ f "best_lb" (a.base.bestLb == b.base.bestLb) ++
  f "best_ub" (a.base.bestUb == b.base.bestUb) ++ f "best_sol" (a.base.bestSol == b.base.bestSol) ++
  f "open_by_layer" (a.base.openByLayer == b.base.openByLayer) ++ f "explored" (a.base.explored == b.base.explored) ++
  f "abort" (a.base.abort == b.base.abort) ++ f "crashed" (a.base.crashed == b.base.crashed) ++
  f "ongoing" (a.ongoing == b.ongoing) ++ f "ongoing_by_layer" (a.ongoingByLayer == b.ongoingByLayer) ++
  f "upper_bounds" (a.upperBounds == b.upperBounds)

/-- why `Sys.exec` refused (diagnostic only: the decision is `Sys.exec`'s) -/
def execWhy (y : Sys Int) (i : Nat) (a : Action Int) : String :=
  let w := match y.ws[i]? with | some w => w.name | none => "absent"
  let base := s!"action {a.name} refused, worker state {w}"
  let pop := fun (N : SubP Int) =>
    if y.crit.base.abort then base ++ " (abort flag up)"
    else if !(y.crit.base.fringe.contains N) then base ++ " (the popped node is not in the fringe of ParSys)"
    else if (ParSys.popMax? y.crit.base.fringe N).isNone then base ++ s!" (PopMax fails: the popped node, ub {N.ub}, does not carry the largest bound of the fringe)"
    else base ++ " (the pop loop / take bookkeeping of ParSys answers differently)"
  match a with
  | .gwStarve N => pop N
  | .gwItem N => pop N
  | .gwCrash N => pop N
  | .abort top => if !(ParSys.abortTop? y.crit.base.fringe top) then base ++ " (AbortTop fails)" else base
  | _ => base

def execActs (dedup : Bool) (y : Sys Int) (i : Nat) : List (Action Int) → Except String (Sys Int)
  | [] => .ok y
  | a :: r =>
    match y.exec dedup i a with
    | some y' => execActs dedup y' i r
    | none => .error (execWhy y i a)

/-- advance the `ParSys` state by the actions of the section just validated (`s` is the validator's state *after*
    the section, still carrying the `ParSys` state from before it) and compare -/
def sysAdvance (s : PSim) (i : Nat) (label : String) (acts : List (Action Int)) : Except String PSim :=
  match s.sys with
  | none => .ok s
  | some y =>
    match execActs s.cfg.nodup y i acts with
    | .error e => .error s!"D:parsys worker {i}, section {label}: {e}"
    | .ok y' =>
      if !(ParSys.critAgree s.c y'.crit) then
        .error s!"D:parsys worker {i}, section {label}: the shared record of ParSys differs from the validator's in:{critDiff s.c y'.crit}"
      else if !(wsAgree s.pcs y'.ws) then
        .error s!"D:parsys worker {i}, section {label}: the worker states of ParSys are not those of the validator"
      else .ok { s with sys := some y' }

/-- one marker and what follows it: the new state, and the `ParSys` actions the section amounts to
    (`ahead`: the tape after the section, read only to assemble the outcome of a compilation, `aheadOut`) -/
def simStep (s : PSim) (i : Nat) (label : String) (ents ahead : List (List String)) : Except String (PSim × List (Action Int)) := do
  let pc := s.pcs[i]?.getD .gone
  let widthOf := fun (n : SubP Int) => s.cfg.w.eval n.path.length
  let tracked := s.sys.isSome
  -- a compilation recorded right after `read_lb` (`pre`: the action of the read itself, if this is its section)
  let afterRead := fun (s : PSim) (n : SubP Int) (lb : Int) (relaxed : Bool) (ents : List (List String)) (pre : List (Action Int)) => do
    if !relaxed && n.ub ≤ lb then
      if ents != [] then throw "process_one_node: calls after the node was found below the incumbent" else pure (setPc s i (.fin n false), pre)
    else
      match ents with
      | [] => pure (setPc s i (if relaxed then .compX n lb else .compR n lb), pre)     -- the compilation is reported later (scheduling points inside it)
      | [e] =>
        match parseDC e, widthOf n with
        | some (ct, w, t, lbT, r), some width =>
          if ct != (if relaxed then 1 else 2) then throw "compile: wrong compilation type"
          if w != width then throw s!"compile: max_width {w}, model {width}"
          if !(subEq n t) then throw "compile: residual differs from the node in hand"
          if lbT != lb then throw s!"compile: best_lb {lbT}, the worker read {lb}"
          match r with
          | .cut => pure (setPc s i (.abortS n), pre ++ [if relaxed then Action.compileX .cutoff else Action.compileR .cutoff])
          | .ok ex =>
            let o : DDOut Int := if tracked then aheadOut ("w" ++ toString i) ex relaxed ahead
              else { isExact := ex, bestExact := none, bestExactSol := none, cutset := [] }
            pure (setPc s i (if relaxed then .upd2 n ex else .upd1 n ex), pre ++ [if relaxed then Action.compileX (.ok o) else Action.compileR (.ok o)])
        | _, _ => throw "compile: unreadable entry or width heuristic failure"
      | _ => throw s!"process_one_node: expected exactly one compilation after read_lb, tape has {ents}"
  match label, pc with
  | "start", .notStarted => if ents != [] then throw "calls before the first section" else pure (setPc s i .idle, [])
  | "cache_get", .compR n lb => if ents == [] then pure (s, []) else afterRead s n lb false ents []
  | "cache_upd", .compR n lb => if ents == [] then pure (s, []) else afterRead s n lb false ents []
  | "cache_get", .compX n lb => if ents == [] then pure (s, []) else afterRead s n lb true ents []
  | "cache_upd", .compX n lb => if ents == [] then pure (s, []) else afterRead s n lb true ents []
  | "get_workload", .idle =>
    let (c, wl, pops) ← simGetWorkload s i ents
    let s := { s with c := c }
    -- `ParSys` has no threshold cache: exactly one pop, explored
    let one : Except String (SubP Int) := match pops with
      | [(N, true)] => .ok N
      | _ => if tracked then .error s!"D:parsys worker {i}, section get_workload: {pops.length} pops / a node refused by the cache — outside ParSys (no threshold cache)"
             else .ok { state := 0, value := 0, path := [], ub := 0, depth := 0 }
    match wl with
    | .complete => pure (setPc s i .exiting, [.gwComplete])
    | .aborted => pure (setPc s i .exiting, [.gwAborted])
    | .wait => pure (setPc s i .waiting, [.gwWait])
    | .starvation => let N ← one; pure (setPc s i .idle, [.gwStarve N])
    | .item n => let N ← one; pure (setPc s i (.readLb1 n), [.gwItem N])
    | .crash => let N ← one; pure (setPc s i .crashedW, [.gwCrash N])
  | "read_lb", .readLb1 n => afterRead s n s.c.readLb false ents [.readLbR]
  | "read_lb", .readLb2 n => afterRead s n s.c.readLb true ents [.readLbX]
  | "update_best", .upd1 n ex =>
    let (b, rest) ← readUpdate ents s.c.base
    if rest != [] then throw "update_best: extra calls"
    let s := { s with c := { s.c with base := b } }
    pure (setPc s i (if ex then .fin n false else .readLb2 n), [.updateR])
  | "update_best", .upd2 n ex =>
    let (b, rest) ← readUpdate ents s.c.base
    if rest != [] then throw "update_best: extra calls"
    let s := { s with c := { s.c with base := b } }
    pure (setPc s i (if ex then .fin n false else .enq n), [.updateX])
  | "enqueue_cutset", .enq n =>
    let (b, rest) ← readEnqueue ents s.cfg.nodup s.c.base
    if rest != [] then throw "enqueue_cutset: extra calls"
    if b.crashed then throw "enqueue_cutset: open_by_layer index out of range in the model"
    pure (setPc { s with c := { s.c with base := b } } i (.fin n false), [.enqueue])
  | "abort_search", .abortS n =>
    match ents with
    | [("FO" :: pt), ["FC"], ["CC"]] =>
      let top ← (if pt == ["none"] then
          (if s.c.base.fringe.isEmpty then pure none else throw "abort_search: pop returned none on a non-empty fringe")
        else match parseTSub pt with
          | some t =>
            if !(s.c.base.fringe.any (fun y => subEq y t)) then throw "abort_search: popped node is not in the model's fringe"
            else if s.c.base.fringe.any (fun y => y.ub > t.ub) then throw "abort_search: popped node does not carry the largest bound of the fringe"
            else pure (some t.ub)
          | none => throw "abort_search: unreadable pop" : Except String (Option Int))
      pure (setPc { s with c := s.c.abortSearch n.ub top } i (.fin n true), [.abort top])
    | _ => throw "abort_search: expected fringe.pop ; fringe.clear ; cache.clear"
  | "notify_finished", .fin n thenExit =>
    if ents != [] then throw "notify_finished: unexpected calls"
    match s.c.notifyFinished i n.depth with
    | none => throw "notify_finished: the model panics (ongoing underflow / index out of range)"
    | some c =>
      let pcs := s.pcs.map (fun p => match p with | .waiting => .idle | p => p)
      pure (setPc { s with c := c, pcs := pcs } i (if thenExit then .exiting else .idle), [.notify])
  | l, _ => throw s!"worker {i}: section {l} is not what its program counter expects"

def simPar (fam : Fam) (cfg : SCfg) (threads builtWith : Nat) (tape : List (List String)) : Except String PSim := do
  let P := fam.problem
  let _ := builtWith   -- `with_nb_threads` resizes `upper_bounds` (fix D3): the construction-time count no longer matters
  let c0 : ParCrit Int := ParCrit.init P cfg.primal cfg.nodup threads
  match tape with
  | ["w-1", "CI"] :: ("w-1" :: "FP" :: pt) :: tape =>
    if parseTSub pt != some ⟨P.init, 0, P.initVal, iMax, 0⟩ then throw "root node differs"
    -- `ParSys` covers the runs without threshold cache: there its initial state `Sys.init` is advanced in lock-step
    let y0 : Option (Sys Int) := if cfg.cache then none else some (Sys.init P cfg.primal cfg.nodup threads)
    let s0 : PSim := { c := c0, pcs := List.replicate threads .notStarted, cfg := cfg, nbVars := P.nbVars, sys := y0 }
    let rec go (fuel : Nat) (s : PSim) (tape : List (List String)) : Except String PSim := do
      match fuel with
      | 0 => throw "trace fuel"
      | fuel + 1 =>
        match tape with
        | [] => pure s
        | e :: rest =>
          match e with
          | [w, "@", label] =>
            let i := (w.drop 1).toNat!
            let (ents, rest') := takeSection w rest
            let (s', acts) ← simStep s i label ents rest'
            -- C04: the section is invisible to the synchronisation skeleton or exactly one of its steps, and the invariant holds
            if !(ParSync.stepOrStutter (absSt s) (absSt s') i) then throw s!"worker {i}, section {label}: not a step of the synchronisation skeleton ParSync"
            if !(ParSync.invB (absSt s')) then throw s!"worker {i}, section {label}: the bookkeeping invariant of ParSync is violated"
            -- ParSys: the section is the step(s) `Sys.exec` performs, and the two states still correspond
            let s' ← sysAdvance s' i label acts
            go fuel s' rest'
          | [w, "WAIT"] =>
            let i := (w.drop 1).toNat!
            match s.pcs[i]? with
            | some .waiting => go fuel s rest
            | some .idle => go fuel s rest        -- woken by a notify that was recorded before the WAIT marker
            | _ => throw s!"worker {i} waits although the model does not send it to the condvar"
          | [w, "EXIT"] =>
            let i := (w.drop 1).toNat!
            match s.pcs[i]? with
            | some .exiting => go fuel (setPc s i .gone) rest
            | _ =>
              -- C04, last clause, evaluated on the implementation's own trace: a worker may leave the search only when it
              -- was aborted or when nothing is open or in progress (the model's bookkeeping agreed with the code up to here)
              if !s.c.base.abort && (s.c.ongoing > 0 || !s.c.base.fringe.isEmpty) then
                throw s!"C04-CLOSED worker {i} leaves the search while {s.c.ongoing} sub-problems are in progress and {s.c.base.fringe.length} are open (no abort)"
              else throw s!"worker {i} exits although the model does not"
          | [w, "CRASH"] =>
            let i := (w.drop 1).toNat!
            match s.pcs[i]? with
            | some .crashedW => go fuel s rest
            | _ => throw s!"worker {i} crashes where the model does not"
          | _ => throw s!"unexpected entry {e}"
    go 1000000 s0 tape
  | _ => throw "tape does not start with initialize ; push(root)"

def parEngine (c i : List String) : Option Res := do
  match splitAt "|" c with
  | famT :: p1 :: p2 :: p3 :: p4 :: pa :: _ =>
    let (fam, _) ← parseFam famT
    let cfg ← parseSCfg [p1, p2, p3, p4]
    let threads ← pa.head?.bind nat?
    let builtWith ← (pa.drop 1).head?.bind nat?
    match splitAt "|" i with
    | [statusT, outT, solT, _choices, tapeT] =>
      let status := statusT.head?.getD "?"
      let ncrash := ((statusT.drop 1).head?.bind nat?).getD 0
      let tape := (splitAt ";" tapeT).filter (· ≠ [])
      let sim := simPar fam cfg threads builtWith tape
      let mut fails : List String := []
      if status != "done" || ncrash > 0 then
        fails := (if builtWith < threads then
            s!"C04:resized the parallel solver {status}s: with_nb_threads({threads}) after construction with {builtWith} threads — a worker indexes upper_bounds out of range, panics with `ongoing` raised and the others wait for ever"
          else if cfg.kind == 2 && !(allImpacted fam) then s!"C15:pooled-long-arcs parallel run ends in {status}"
          else s!"C04:the parallel run ends in {status} ({ncrash} crashed workers)") :: fails
        -- a run that never reports (or loses a worker) does not report the optimum either
        if !(cfg.kind == 2 && !(allImpacted fam)) then
          fails := s!"C03:maximize() does not report: the parallel run ends in {status} ({ncrash} crashed workers)" :: fails
      match outT with
      | ex :: bv :: lb :: ub :: explored :: _polls :: gapT =>
        let lb ← int? lb; let ub ← int? ub; let explored ← nat? explored
        let value := bv.toInt?
        let sol := if solT == ["none"] then none else if solT == ["e"] then some [] else (ints? solT).map parseDecs
        let (agree, why, ms) := match sim with
          | .error e => (false, e, "trace rejected: " ++ e)
          | .ok s =>
            let (mex, mval) := s.c.base.completion
            let ok := b2s mex == ex && mval == value && s.c.base.bestLb == lb && s.c.base.bestUb == ub && s.c.base.explored == explored
            (ok, if ok then "" else "final state differs", s!"{b2s mex} {optInt mval} {s.c.base.bestLb} {s.c.base.bestUb} {s.c.base.explored}")
        let interrupted := ex == "0"
        let pf := phiSolver fam (cfg.kind == 2) cfg.primal interrupted (ex == "1") value lb ub sol cfg.stopAt.isSome
        -- the solver-level clauses belong to C03 when uninterrupted
        let pf := pf.map (fun s => if s.startsWith "C01:" then "C03:" ++ (s.drop 4).toString else s)
        let pf := withFeatureFails cfg.cache fam.domRule.isSome pf
        let pf := pf ++ gapFails lb ub gapT
        fails := pf ++ fails
        if why.startsWith "C04-CLOSED" then fails := s!"C04:the search is declared complete while work remains: {(why.drop 11).toString}" :: fails
        pure { agree := agree, phi := fails.isEmpty, model := ms, note := failNote fails ++ (if agree then "" else " TRACE: " ++ why) }
      | _ =>
        -- no final state (deadlock / overrun / panic): the trace up to that point must still be valid
        let (agree, why) := match sim with | .error e => (false, e) | .ok _ => (true, "")
        if why.startsWith "C04-CLOSED" then fails := s!"C04:the search is declared complete while work remains: {(why.drop 11).toString}" :: fails
        pure { agree := agree, phi := fails.isEmpty, model := "-", note := failNote fails ++ (if agree then "" else " TRACE: " ++ why) }
    | _ => none
  | _ => none

/-- `parstress`: free-running real threads; only the final outcome is observed -/
def parstressEngine (c i : List String) : Option Res := do
  match splitAt "|" c with
  | famT :: p1 :: p2 :: p3 :: p4 :: _ =>
    let (fam, _) ← parseFam famT
    let cfg ← parseSCfg [p1, p2, p3, p4]
    match splitAt "|" i with
    | [ex :: bv :: lb :: ub :: _explored :: _polls :: gapT, solT] =>
      let lb ← int? lb; let ub ← int? ub
      let value := bv.toInt?
      let sol := if solT == ["none"] then none else if solT == ["e"] then some [] else (ints? solT).map parseDecs
      let pf := phiSolver fam (cfg.kind == 2) cfg.primal (ex == "0") (ex == "1") value lb ub sol
      let pf := pf.map (fun s => if s.startsWith "C01:" then "C03:" ++ (s.drop 4).toString else s)
      let pf := pf ++ gapFails lb ub gapT
      pure { agree := true, phi := pf.isEmpty, model := "(phi only)", note := failNote pf }
    | [["panic"]] => pure { agree := true, phi := false, model := "-", note := "F:C04 [C04:the parallel solver panics in a free-running stress run] F:C03 [C03:maximize() does not report: panic in a free-running stress run]" }
    | [["hang"]] => pure { agree := true, phi := false, model := "-", note := "F:C04 [C04:maximize() did not return within the watchdog delay in a free-running stress run (deadlock or livelock)] F:C03 [C03:maximize() does not report: no return within the watchdog delay in a free-running stress run]" }
    | _ => none
  | _ => none

/-- `seqorder`: the sequential solver with a custom sub-problem ranking (any processing order); only the outcome is observed.
    case: `fam | cfg(4 parts) | mode` -/
def seqorderEngine (c i : List String) : Option Res := do
  match splitAt "|" c with
  | famT :: p1 :: p2 :: p3 :: p4 :: _ =>
    let (fam, _) ← parseFam famT
    let cfg ← parseSCfg [p1, p2, p3, p4]
    match splitAt "|" i with
    | [ex, bv, lb, ub, _explored, _polls] :: solT :: _ =>
      let lb ← int? lb; let ub ← int? ub
      let value := bv.toInt?
      let sol := if solT == ["none"] then none else if solT == ["e"] then some [] else (ints? solT).map parseDecs
      -- best_upper_bound() is only meaningful for best-first pops: the bound clauses are not evaluated here
      let pf := (phiSolver fam (cfg.kind == 2) cfg.primal false (ex == "1") value lb lb sol).filter (fun s => !(s.startsWith "C02:after"))
      let pf := withFeatureFails cfg.cache fam.domRule.isSome pf
      pure { agree := true, phi := pf.isEmpty, model := "(phi only)", note := failNote pf }
    | [["hang"]] => pure { agree := true, phi := false, model := "-", note := "F:C01 [C01:the solver does not terminate with a custom sub-problem ranking (pop cap exceeded)] F:C09 [C09:the solver does not terminate with a custom sub-problem ranking (pop cap exceeded)]" }
    | [["panic"]] => pure { agree := true, phi := false, model := "-", note := "F:C01 [C01:the solver panics with a custom sub-problem ranking]" }
    | _ => none
  | _ => none

end Ddo.Engines
