import DdoModel.ParSolver
import DdoModel.Proofs.ParSync
import DdoModel.Engines.Seq
/-! Driver engine `par`: trace validation of the parallel solver under the controlled scheduler.
    The tape is the linearised run: `w<i> @ <section>` marks worker `i` entering a critical section,
    the entries that follow (same worker) are the calls it makes to fringe / cache / diagram until its
    next section; `WAIT`, `EXIT`, `CRASH` are the condvar wait, the end of the worker and a panic.
    The model (`ParSolver.lean`) replays it: every section must be the one the worker's program counter
    expects, every call inside must be the model's, the shared state evolves by the model's functions,
    and the final `Completion`, bounds and `explored` must coincide.
    `phi`: C03 (optimum, exact), C04 (no deadlock, no crash, terminates), C05 / C02 (bounds and solution
    after a cutoff). -/
namespace Ddo.Engines
open Ddo.Proto

inductive CRes | cut | ok (exact : Bool)
deriving DecidableEq

inductive WPc
  | notStarted | idle | waiting | exiting | gone | crashedW
  | readLb1 (n : SubP Int)                     -- holds `n`; next section: read_lb
  | compR (n : SubP Int) (lb : Int)            -- next entry: DC restricted
  | upd1 (n : SubP Int) (ex : Bool)            -- next section: update_best
  | abortS (n : SubP Int)                      -- next section: abort_search
  | readLb2 (n : SubP Int)
  | compX (n : SubP Int) (lb : Int)
  | upd2 (n : SubP Int) (ex : Bool)
  | enq (n : SubP Int)
  | fin (n : SubP Int) (thenExit : Bool)       -- next section: notify_finished

structure PSim where
  c : ParCrit Int
  pcs : List WPc
  cfg : SCfg
  nbVars : Nat

def setPc (s : PSim) (i : Nat) (p : WPc) : PSim := { s with pcs := s.pcs.set i p }

/-- abstraction of the executable model's state to the synchronisation skeleton `ParSync` (C04) -/
def absPc : WPc → ParSync.Pc
  | .notStarted | .idle => .idle
  | .waiting => .waiting
  | .exiting | .gone => .done
  | .crashedW => .crashed
  | .fin _ true => .aborting
  | _ => .held
def absSt (s : PSim) : ParSync.PSt :=
  { fringe := s.c.base.fringe.length, ongoing := s.c.ongoing, abort := s.c.base.abort, pcs := s.pcs.map absPc, ubSlots := s.c.upperBounds.length }

/-- entries of worker `i` that follow, up to (not including) the next marker -/
def takeSection (i : String) : List (List String) → List (List String) × List (List String)
  | [] => ([], [])
  | e :: r =>
    match e with
    | w :: "@" :: _ => ([], e :: r)
    | [_, "WAIT"] | [_, "EXIT"] | [_, "CRASH"] => ([], e :: r)
    | w :: body => if w == i then let (a, b) := takeSection i r; (body :: a, b) else ([], e :: r)
    | [] => takeSection i r

/-- `get_workload` of thread `i` against the entries recorded inside the section -/
def simGetWorkload (s : PSim) (i : Nat) (ents : List (List String)) : Except String (ParCrit Int × WorkLoad Int) := do
  let c := s.c
  -- cache cleaning
  let fa' := cleanLoopPar s.nbVars c.base.openByLayer c.ongoingByLayer (s.nbVars + 1) c.base.firstActive
  let nclear := fa' - c.base.firstActive
  let cls := ents.take nclear
  let want := (List.range nclear).map (fun k => ["CL", toString (c.base.firstActive + k)])
  if cls != want then throw s!"get_workload: cleared layers {cls}, model expects {want}"
  let ents := ents.drop nclear
  let c := { c with base := { c.base with firstActive := fa' } }
  -- do we need to stop (tested first since fix D4)
  if c.base.abort then
    if ents != [] then throw "get_workload: calls after Aborted" else return (c, .aborted)
  -- are we done?
  let (ents, done) ← (if c.ongoing == 0 then
      match ents with
      | ["FL", n] :: r =>
        if n != toString c.base.fringe.length then throw s!"get_workload: fringe length {n}, model {c.base.fringe.length}"
        else pure (r, c.base.fringe.isEmpty)
      | _ => throw "get_workload: expected is_empty() for the completion test"
    else pure (ents, false) : Except String (List (List String) × Bool))
  if done then
    if ents != [] then throw "get_workload: calls after Complete" else return (c.complete, .complete)
  match ents with
  | ["FL", n] :: ents =>
    if n != toString c.base.fringe.length then throw s!"get_workload: fringe length {n}, model {c.base.fringe.length}"
    if c.base.fringe.isEmpty then
      if ents != [] then throw "get_workload: calls after the empty-fringe test" else return (c, .wait)
    -- pop loop
    let rec loop (fuel : Nat) (c : ParCrit Int) (ents : List (List String)) : Except String (ParCrit Int × WorkLoad Int) := do
      match fuel with
      | 0 => throw "pop loop fuel"
      | fuel + 1 =>
        match ents with
        | ("FO" :: pt) :: ents =>
          match parseTSub pt with
          | none => throw "get_workload: pop returned none on a non-empty fringe"
          | some t =>
            match removeFirst c.base.fringe t with
            | none => throw "get_workload: popped node is not in the model's fringe"
            | some rest =>
              if rest.any (fun y => y.ub > t.ub || (y.ub == t.ub && y.value > t.value)) then throw "get_workload: popped node is not maximal"
              let nn := (c.base.fringe.find? (fun y => subEq y t)).getD t.toSubP
              let c := { c with base := { c.base with fringe := rest } }
              if nn.ub ≤ c.base.bestLb then
                if ents != [["FC"]] then throw "get_workload: expected fringe.clear() after popping a node below the incumbent"
                return ({ c with base := { c.base with fringe := [], openByLayer := c.base.openByLayer.map (fun _ => 0) } }, .starvation)
              match ents with
              | e :: ents =>
                match splitAt ">" e with
                | ["CM" :: pt2, [b]] =>
                  if parseTSub pt2 != some t then throw "get_workload: must_explore on another node"
                  if b == "1" then
                    match ents with
                    | [["CU", st, d, v, ex]] =>
                      if st != toString nn.state || d != toString nn.depth || v != toString nn.value || ex != "1" then throw "get_workload: pop-time threshold write differs"
                      match c.take i nn with
                      | some c' => return (c', .item nn)
                      | none => return (c.takeCrash, .crash)
                    | _ => throw "get_workload: expected the pop-time threshold write (explored = true)"
                  else
                    match decLayer c.base.openByLayer nn.depth with
                    | none => throw "get_workload: open_by_layer underflow in the model"
                    | some l =>
                      let c := { c with base := { c.base with openByLayer := l } }
                      match ents with
                      | ["FL", n] :: ents =>
                        if n != toString c.base.fringe.length then throw "get_workload: fringe length (skip loop)"
                        if c.base.fringe.isEmpty then
                          if ents != [] then throw "get_workload: calls after Starvation" else return (c, .starvation)
                        loop fuel c ents
                      | _ => throw "get_workload: expected is_empty() after a node refused by the cache"
                | _ => throw s!"get_workload: expected must_explore, tape has {e}"
              | [] => throw "get_workload: section ended after a pop"
        | e :: _ => throw s!"get_workload: expected pop, tape has {e}"
        | [] => throw "get_workload: section ended before a pop"
    loop 100000 c ents
  | _ => throw "get_workload: expected is_empty()"

def parseDC (e : List String) : Option (Nat × Nat × TSub × Int × CRes) :=
  match splitAt ">" e with
  | ["DC" :: ct :: w :: rest, res] => do
    let t ← parseTSub (rest.take 5)
    let lb ← (rest.drop 5).head?.bind int?
    let r ← match res with
      | ["cut"] => some CRes.cut
      | ["ok", ex, _] => some (CRes.ok (ex == "1"))
      | _ => none
    pure ((← nat? ct), (← nat? w), t, lb, r)
  | _ => none

/-- one marker and what follows it -/
def simStep (s : PSim) (i : Nat) (label : String) (ents : List (List String)) : Except String PSim := do
  let pc := s.pcs[i]?.getD .gone
  let widthOf := fun (n : SubP Int) => s.cfg.w.eval n.path.length
  -- a compilation recorded right after `read_lb`
  let afterRead := fun (s : PSim) (n : SubP Int) (lb : Int) (relaxed : Bool) (ents : List (List String)) => do
    if !relaxed && n.ub ≤ lb then
      if ents != [] then throw "process_one_node: calls after the node was found below the incumbent" else pure (setPc s i (.fin n false))
    else
      match ents with
      | [] => pure (setPc s i (if relaxed then .compX n lb else .compR n lb))     -- the compilation is reported later (scheduling points inside it)
      | [e] =>
        match parseDC e, widthOf n with
        | some (ct, w, t, lbT, r), some width =>
          if ct != (if relaxed then 1 else 2) then throw "compile: wrong compilation type"
          if w != width then throw s!"compile: max_width {w}, model {width}"
          if !(subEq n t) then throw "compile: residual differs from the node in hand"
          if lbT != lb then throw s!"compile: best_lb {lbT}, the worker read {lb}"
          match r with
          | .cut => pure (setPc s i (.abortS n))
          | .ok ex => pure (setPc s i (if relaxed then .upd2 n ex else .upd1 n ex))
        | _, _ => throw "compile: unreadable entry or width heuristic failure"
      | _ => throw s!"process_one_node: expected exactly one compilation after read_lb, tape has {ents}"
  match label, pc with
  | "start", .notStarted => if ents != [] then throw "calls before the first section" else pure (setPc s i .idle)
  | "cache_get", .compR n lb => if ents == [] then pure s else afterRead s n lb false ents
  | "cache_upd", .compR n lb => if ents == [] then pure s else afterRead s n lb false ents
  | "cache_get", .compX n lb => if ents == [] then pure s else afterRead s n lb true ents
  | "cache_upd", .compX n lb => if ents == [] then pure s else afterRead s n lb true ents
  | "get_workload", .idle =>
    let (c, wl) ← simGetWorkload s i ents
    let s := { s with c := c }
    match wl with
    | .complete => pure (setPc s i .exiting)
    | .aborted => pure (setPc s i .exiting)
    | .wait => pure (setPc s i .waiting)
    | .starvation => pure (setPc s i .idle)
    | .item n => pure (setPc s i (.readLb1 n))
    | .crash => pure (setPc s i .crashedW)
  | "read_lb", .readLb1 n => afterRead s n s.c.readLb false ents
  | "read_lb", .readLb2 n => afterRead s n s.c.readLb true ents
  | "update_best", .upd1 n ex =>
    let (b, rest) ← readUpdate ents s.c.base
    if rest != [] then throw "update_best: extra calls"
    let s := { s with c := { s.c with base := b } }
    pure (setPc s i (if ex then .fin n false else .readLb2 n))
  | "update_best", .upd2 n ex =>
    let (b, rest) ← readUpdate ents s.c.base
    if rest != [] then throw "update_best: extra calls"
    let s := { s with c := { s.c with base := b } }
    pure (setPc s i (if ex then .fin n false else .enq n))
  | "enqueue_cutset", .enq n =>
    let (b, rest) ← readEnqueue ents s.cfg.nodup s.c.base n.ub
    if rest != [] then throw "enqueue_cutset: extra calls"
    if b.crashed then throw "enqueue_cutset: open_by_layer index out of range in the model"
    pure (setPc { s with c := { s.c with base := b } } i (.fin n false))
  | "abort_search", .abortS n =>
    match ents with
    | [("FO" :: pt), ["FC"], ["CC"]] =>
      let top ← (if pt == ["none"] then
          (if s.c.base.fringe.isEmpty then pure none else throw "abort_search: pop returned none on a non-empty fringe")
        else match parseTSub pt with
          | some t =>
            if !(s.c.base.fringe.any (fun y => subEq y t)) then throw "abort_search: popped node is not in the model's fringe"
            else if s.c.base.fringe.any (fun y => y.ub > t.ub) then throw "abort_search: popped node does not carry the largest bound of the fringe"
            else pure (some t.ub)
          | none => throw "abort_search: unreadable pop" : Except String (Option Int))
      pure (setPc { s with c := s.c.abortSearch n.ub top } i (.fin n true))
    | _ => throw "abort_search: expected fringe.pop ; fringe.clear ; cache.clear"
  | "notify_finished", .fin n thenExit =>
    if ents != [] then throw "notify_finished: unexpected calls"
    match s.c.notifyFinished i n.depth with
    | none => throw "notify_finished: the model panics (ongoing underflow / index out of range)"
    | some c =>
      let pcs := s.pcs.map (fun p => match p with | .waiting => .idle | p => p)
      pure (setPc { s with c := c, pcs := pcs } i (if thenExit then .exiting else .idle))
  | l, _ => throw s!"worker {i}: section {l} is not what its program counter expects"

def simPar (fam : Fam) (cfg : SCfg) (threads builtWith : Nat) (tape : List (List String)) : Except String PSim := do
  let P := fam.problem
  let _ := builtWith   -- `with_nb_threads` resizes `upper_bounds` (fix D3): the construction-time count no longer matters
  let c0 : ParCrit Int := ParCrit.init P cfg.primal cfg.nodup threads
  match tape with
  | ["w-1", "CI"] :: ("w-1" :: "FP" :: pt) :: tape =>
    if parseTSub pt != some ⟨P.init, 0, P.initVal, iMax, 0⟩ then throw "root node differs"
    let s0 : PSim := { c := c0, pcs := List.replicate threads .notStarted, cfg := cfg, nbVars := P.nbVars }
    let rec go (fuel : Nat) (s : PSim) (tape : List (List String)) : Except String PSim := do
      match fuel with
      | 0 => throw "trace fuel"
      | fuel + 1 =>
        match tape with
        | [] => pure s
        | e :: rest =>
          match e with
          | [w, "@", label] =>
            let i := (w.drop 1).toNat!
            let (ents, rest') := takeSection w rest
            let s' ← simStep s i label ents
            -- C04: the section is invisible to the synchronisation skeleton or exactly one of its steps, and the invariant holds
            if !(ParSync.stepOrStutter (absSt s) (absSt s') i) then throw s!"worker {i}, section {label}: not a step of the synchronisation skeleton ParSync"
            if !(ParSync.invB (absSt s')) then throw s!"worker {i}, section {label}: the bookkeeping invariant of ParSync is violated"
            go fuel s' rest'
          | [w, "WAIT"] =>
            let i := (w.drop 1).toNat!
            match s.pcs[i]? with
            | some .waiting => go fuel s rest
            | some .idle => go fuel s rest        -- woken by a notify that was recorded before the WAIT marker
            | _ => throw s!"worker {i} waits although the model does not send it to the condvar"
          | [w, "EXIT"] =>
            let i := (w.drop 1).toNat!
            match s.pcs[i]? with
            | some .exiting => go fuel (setPc s i .gone) rest
            | _ => throw s!"worker {i} exits although the model does not"
          | [w, "CRASH"] =>
            let i := (w.drop 1).toNat!
            match s.pcs[i]? with
            | some .crashedW => go fuel s rest
            | _ => throw s!"worker {i} crashes where the model does not"
          | _ => throw s!"unexpected entry {e}"
    go 1000000 s0 tape
  | _ => throw "tape does not start with initialize ; push(root)"

def parEngine (c i : List String) : Option Res := do
  match splitAt "|" c with
  | famT :: p1 :: p2 :: p3 :: p4 :: pa :: _ =>
    let (fam, _) ← parseFam famT
    let cfg ← parseSCfg [p1, p2, p3, p4]
    let threads ← pa.head?.bind nat?
    let builtWith ← (pa.drop 1).head?.bind nat?
    match splitAt "|" i with
    | [statusT, outT, solT, _choices, tapeT] =>
      let status := statusT.head?.getD "?"
      let ncrash := ((statusT.drop 1).head?.bind nat?).getD 0
      let tape := (splitAt ";" tapeT).filter (· ≠ [])
      let sim := simPar fam cfg threads builtWith tape
      let mut fails : List String := []
      if status != "done" || ncrash > 0 then
        fails := (if builtWith < threads then
            s!"C04:resized the parallel solver {status}s: with_nb_threads({threads}) after construction with {builtWith} threads — a worker indexes upper_bounds out of range, panics with `ongoing` raised and the others wait for ever"
          else if cfg.kind == 2 && !(allImpacted fam) then s!"C15:pooled-long-arcs parallel run ends in {status}"
          else s!"C04:the parallel run ends in {status} ({ncrash} crashed workers)") :: fails
        -- a run that never reports (or loses a worker) does not report the optimum either
        if !(cfg.kind == 2 && !(allImpacted fam)) then
          fails := s!"C03:maximize() does not report: the parallel run ends in {status} ({ncrash} crashed workers)" :: fails
      match outT with
      | [ex, bv, lb, ub, explored, _polls] =>
        let lb ← int? lb; let ub ← int? ub; let explored ← nat? explored
        let value := bv.toInt?
        let sol := if solT == ["none"] then none else if solT == ["e"] then some [] else (ints? solT).map parseDecs
        let (agree, why, ms) := match sim with
          | .error e => (false, e, "trace rejected: " ++ e)
          | .ok s =>
            let (mex, mval) := s.c.base.completion
            let ok := b2s mex == ex && mval == value && s.c.base.bestLb == lb && s.c.base.bestUb == ub && s.c.base.explored == explored
            (ok, if ok then "" else "final state differs", s!"{b2s mex} {optInt mval} {s.c.base.bestLb} {s.c.base.bestUb} {s.c.base.explored}")
        let interrupted := ex == "0"
        let pf := phiSolver fam (cfg.kind == 2) cfg.primal interrupted (ex == "1") value lb ub sol
        -- the solver-level clauses belong to C03 when uninterrupted
        let pf := pf.map (fun s => if s.startsWith "C01:" then "C03:" ++ (s.drop 4).toString else s)
        fails := pf ++ fails
        pure { agree := agree, phi := fails.isEmpty, model := ms, note := failNote fails ++ (if agree then "" else " TRACE: " ++ why) }
      | _ =>
        -- no final state (deadlock / overrun / panic): the trace up to that point must still be valid
        let (agree, why) := match sim with | .error e => (false, e) | .ok _ => (true, "")
        pure { agree := agree, phi := fails.isEmpty, model := "-", note := failNote fails ++ (if agree then "" else " TRACE: " ++ why) }
    | _ => none
  | _ => none

/-- `parstress`: free-running real threads; only the final outcome is observed -/
def parstressEngine (c i : List String) : Option Res := do
  match splitAt "|" c with
  | famT :: p1 :: p2 :: p3 :: p4 :: _ =>
    let (fam, _) ← parseFam famT
    let cfg ← parseSCfg [p1, p2, p3, p4]
    match splitAt "|" i with
    | [[ex, bv, lb, ub, _explored, _polls], solT] =>
      let lb ← int? lb; let ub ← int? ub
      let value := bv.toInt?
      let sol := if solT == ["none"] then none else if solT == ["e"] then some [] else (ints? solT).map parseDecs
      let pf := phiSolver fam (cfg.kind == 2) cfg.primal (ex == "0") (ex == "1") value lb ub sol
      let pf := pf.map (fun s => if s.startsWith "C01:" then "C03:" ++ (s.drop 4).toString else s)
      pure { agree := true, phi := pf.isEmpty, model := "(phi only)", note := failNote pf }
    | [["panic"]] => pure { agree := true, phi := false, model := "-", note := "F:C04 [C04:the parallel solver panics in a free-running stress run] F:C03 [C03:maximize() does not report: panic in a free-running stress run]" }
    | [["hang"]] => pure { agree := true, phi := false, model := "-", note := "F:C04 [C04:maximize() did not return within the watchdog delay in a free-running stress run (deadlock or livelock)] F:C03 [C03:maximize() does not report: no return within the watchdog delay in a free-running stress run]" }
    | _ => none
  | _ => none

end Ddo.Engines
