import DdoModel.Proto
import DdoModel.Engines.Store
import DdoModel.Examples.LcsDp
/-! Family `lcs` of the driver engine `exmodel` (C16) — `LcsDp.lean`; statements in `LcsModel.lean`.
    `agree` = every event (the `Lcs` value the reader and `Lcs::new` built: mapped and sorted strings, mapping, lengths,
    `next`, `rem`, the 2-string tables; variable order, `is_impacted_by`, domains, transitions, costs, bounds, merges in the
    order given, relaxed costs, ranking, dominance key / coordinates / `partial_cmp` / `cmp`; panics included — a reader that
    panics or returns an error too) is what the model says;
    `phi` = pointwise, by exhaustive enumeration with the model's own domains, transitions and costs (on the states with
    one position per string, none beyond the end of its string):
    * `rub`: the bound THE CODE returned for the state dominates its value-to-go (`RubOk`);
    * `rx`: for the merged-away state `u`, the merged state `m` THE CODE returned and the relaxed cost `r` THE CODE returned
      for an arc of cost `c` into `u`: `c + H(u) ≤ r + H(m)` (`MergeOk`, potential form of `Wf.lean`);
    * `dm`: the keys being equal according to THE CODE, the verdict of `partial_cmp` THE CODE returned is admissible;
    * `pv`: value of the path + value-to-go of the state reached = the length of the longest common subsequence, by the
      independent specification `Lcs.lean` (`Lcs.isSubseq` over the lines of the FILE), among those that begin with the
      characters the path took (at the root this is `Lcs.best`): the DP model is exact.
    Instances outside the domain of the format (declared alphabet too small, more or fewer lines than announced, no string,
    an empty string) are mirrored all the same (`agree`), their `phi` is `true` by definition. -/
namespace Ddo.Engines
open Ddo Ddo.Proto Ddo.Examples

namespace LcsE
open Ddo.Examples.LcsModel

def st? (ts : List String) : Option St := if ts == ["-"] then some [] else if ts.isEmpty then none else ts.mapM nat?
def showSt (s : St) : String := if s.isEmpty then "-" else join (s.map toString)
def showOrd (o : Ordering) : String := match o with | .lt => "lt" | .eq => "eq" | .gt => "gt"
def ord? (s : String) : Option Ordering := match s with | "lt" => some .lt | "eq" => some .eq | "gt" => some .gt | _ => none
def showOI (o : Option Int) : String := match o with | some v => toString v | none => "panic"
def showOS (o : Option St) : String := match o with | some s => showSt s | none => "panic"
def showOB (o : Option Bool) : String := match o with | some b => b2s b | none => "panic"
def showE (o : EInt) : String := match o with | some v => toString v | none => "-inf"
def showPc (r : Option (Ordering × Bool)) : String := match r with | none => "none" | some (o, b) => s!"{showOrd o} {b2s b}"
def ints (l : List Int) : String := join (l.map toString)

/-- token lists joined by a separator token -/
def inter (sep : String) : List (List String) → List String
  | [] => []
  | [x] => x
  | x :: r => x ++ sep :: inter sep r
def show2 {α : Type} [ToString α] (t : List (List α)) : List String := inter "," (t.map fun r => r.map toString)
def show3 {α : Type} [ToString α] (t : List (List (List α))) : List String := inter "/" (t.map show2)

def pairs? : List Int → Option (List (Nat × Int))
  | [] => some []
  | x :: v :: r => if x < 0 then none else (pairs? r).map ((x.toNat, v) :: ·)
  | _ => none

/-- checks one event against the model; `none` = unreadable, `some (ok, what the model says)` -/
def checkEvent (I : Inst) (e : List String) : Option (Bool × String) :=
  let P := problem I
  let D := LcsModel.domRule
  match splitAt ":" e with
  | [["dims", a, b]] => some (a == toString I.nStrings && b == toString I.nChars, s!"{I.nStrings} {I.nChars}")
  | [("str" :: ts)] => let m := show2 I.strings; some (ts == m, join m)
  | [("chr" :: ts)] => some (ts == I.chars.map toString, ints I.chars)
  | [("len" :: ts)] => some (ts == I.len.map toString, join (I.len.map toString))
  | [("nxt" :: ts)] => let m := show3 I.next; some (ts == m, join m)
  | [("rem" :: ts)] => let m := show3 I.rem; some (ts == m, join m)
  | [("tab" :: ts)] => let m := show3 I.tables; some (ts == m, join m)
  | [["nv", k]] => some (k == toString P.nbVars, toString P.nbVars)
  | [("ord" :: ts)] =>
    let want := (List.range (P.nbVars + 2)).map (fun d => match P.nextVar d [P.init] with | some v => toString v | none => "n")
    some (ts == want, join want)
  | [["uv", b]] => some (b == b2s D.useValue, b2s D.useValue)
  | ["init" :: s, [v]] =>
    let m := showSt P.init
    some (join s == m && v == toString P.initVal, s!"{m} : {P.initVal}")
  | ["rub" :: s, [r]] => do
    let s ← st? s
    let m := showOI (rub? I s)
    pure (r == m, m)
  | ["imp" :: s, [x], [b]] => do
    let s ← st? s; let x ← nat? x
    let m := showOB (impacted? x s)
    pure (b == m, m)
  | ["pv" :: s, [v], decs] => do
    let s ← st? s; let v ← int? v; let ds ← (ints? decs).bind pairs?
    match replay I ds with
    | some (s2, v2) => pure (s2 == s && v2 == v, s!"{showSt s2} : {v2}")
    | none => pure (false, "not a path of the model")
  | ["dom" :: s, [_], vals] => do
    let s ← st? s
    let m := match domain? I s with | some d => ints d | none => "panic"
    pure (join vals == m, m)
  | ["tr" :: s, [_, v], s2, [c]] => do
    let s ← st? s; let v ← int? v
    let m2 := showOS (trans? I s v)
    let k := toString (cost v)
    pure (join s2 == m2 && c == k, s!"{m2} : {k}")
  | ["rx" :: src, dst, m, [x, v], [c], [r]] => do
    let src ← st? src; let dst ← st? dst; let m ← st? m; let x ← nat? x; let v ← int? v; let c ← int? c
    let k := toString ((relaxation I).relax src dst m ⟨x, v⟩ c)
    pure (r == k, k)
  | ["rk" :: a, b, [o]] => do
    let a ← st? a; let b ← st? b
    let m := match rankCmp? a b with | some o => showOrd o | none => "panic"
    pure (o == m, m)
  | ["dk" :: s, [k]] => do
    let s ← st? s
    let m := match D.key s with | some k => toString k | none => "panic"
    pure (k == m, m)
  | ["dc" :: s, [d], cs] => do
    let s ← st? s
    let m := ints (D.coordsN (D.dims s) s)
    pure (d == toString (D.dims s) && join cs == m, s!"{D.dims s} : {m}")
  | ["dm" :: a, [va], b, [vb], [keq], pc] => do
    let a ← st? a; let b ← st? b; let va ← int? va; let vb ← int? vb
    let mk := match D.key a, D.key b with | some x, some y => b2s (x == y) | _, _ => "panic"
    let mp := showPc (D.partialCmp a va b vb)
    pure (keq == mk && join pc == mp, s!"{mk} : {mp}")
  | ["cm" :: a, [va], b, [vb], [o]] => do
    let a ← st? a; let b ← st? b; let va ← int? va; let vb ← int? vb
    let m := showOrd (D.cmp a va b vb)
    pure (o == m, m)
  | ("mg" :: first) :: rest =>
    -- `mg s1 , s2 , … : m` — in the order given; `mg : m` = the merge of no state
    match (first :: rest).reverse with
    | m :: [sts] => do
      let sts ← if sts.isEmpty then some [] else (splitAt "," sts).mapM st?
      let k := showOS (merge? I sts)
      pure (join m == k, k)
    | _ => none
  | _ => none

/-- the states whose value-to-go `phiEvent` asks for -/
def statesOf (e : List String) : List St :=
  match splitAt ":" e with
  | ["rub" :: s, _] => (st? s).toList
  | ["pv" :: s, _, _] => (st? s).toList
  | ["rx" :: _, dst, m, _, _, _] => (st? dst).toList ++ (st? m).toList
  | ["dm" :: a, _, b, _, ["1"], [_, _]] => (st? a).toList ++ (st? b).toList
  | _ => []

abbrev Cache := List (St × EInt)
def Cache.get (c : Cache) (s : St) : Option EInt := (c.find? (fun p => p.1 == s)).map (·.2)

/-- `phi` of one event: `(kind of check made — 0 none, 1 rub, 2 rx, 3 dm, 4 pv —, violation)`; `best` = the values-to-go
    (`LcsModel.bestRem`) of the valid states of the case, `cs` = the common subsequences of the lines of the file
    (`LcsModel.commons`) -/
def phiEvent (I : Inst) (best : Cache) (cs : List (List Int)) (e : List String) : Nat × Option (String × String) :=
  match splitAt ":" e with
  | ["rub" :: s, [r]] =>
    match st? s, int? r with
    | some s, some r =>
      match best.get s with
      | some b => (1, if decide (b ≤ some r) then none
          else some ("lcs-rub", s!"fast_upper_bound of the state `{showSt s}` is {r} but a completion is worth {showE b}: the rough upper bound is not admissible"))
      | none => (0, none)
    | _, _ => (0, none)
  | ["rx" :: _, dst, m, _, [c], [r]] =>
    match st? dst, st? m, int? c, int? r with
    | some dst, some m, some c, some r =>
      match best.get dst, best.get m with
      | some bd, some bm => (2, if decide (bd.addI c ≤ bm.addI r) then none
          else some ("lcs-merge", s!"`{showSt dst}` (value-to-go {showE bd}, arc cost {c}) merged into `{showSt m}` (value-to-go {showE bm}, relaxed arc cost {r}): merge/relax do not over-approximate"))
      | _, _ => (0, none)
    | _, _, _, _ => (0, none)
  | ["dm" :: a, [va], b, [vb], ["1"], [o, _]] =>
    match st? a, int? va, st? b, int? vb, ord? o with
    | some a, some va, some b, some vb, some o =>
      match best.get a, best.get b with
      | some ba, some bb =>
        let ta := ba.addI va
        let tb := bb.addI vb
        let ok := match o with
          | .lt => decide (ta ≤ tb)
          | .gt => decide (tb ≤ ta)
          | .eq => decide (ta ≤ tb) && decide (tb ≤ ta)
        (3, if ok then none
          else some ("lcs-dominance", s!"`{showSt a}` (value {va}, reaches {showE ta}) against `{showSt b}` (value {vb}, reaches {showE tb}) is `{showOrd o}`: the dominance rule is not admissible"))
      | _, _ => (0, none)
    | _, _, _, _, _ => (0, none)
  | ["pv" :: s, [v], decs] =>
    match st? s, int? v, (ints? decs).bind pairs? with
    | some s, some v, some ds =>
      match best.get s with
      | some b =>
        let dp := b.addI v
        let spec : EInt := specOf cs (prefixOf I ds)
        (4, if spec == dp then none
          else some ("lcs-exact", s!"after the decisions {ds} (value {v}, state `{showSt s}`) the DP model reaches at best {showE dp}, the specification {showE spec}: the DP model is not exact"))
      | none => (0, none)
    | _, _, _ => (0, none)
  | _ => (0, none)

end LcsE

/-- case: `lcs | k declared nlines (len c_1 … c_len)*nlines | walks seed style` (characters as code points) -/
def lcsCase (toks : List String) (i : List String) : Option Res := do
    let t ← ints? toks
    match t with
    | k :: declared :: nl :: rest =>
      if k < 0 ∨ declared < 0 ∨ nl < 0 then none else
      let lines ← Lcs.strings? nl.toNat rest
      let inDom := LcsModel.inDomain k.toNat declared.toNat lines
      match LcsModel.readInst k.toNat declared.toNat lines with
      | .panic =>
        pure { agree := i == ["panic"], phi := !inDom, model := "panic (reader / Lcs::new)",
               note := (if inDom then "F:C16 [C16:lcs: the reader panics on an instance of the domain]" else "")
                       ++ (if i == ["panic"] then "" else " D:exmodel the model says that the reader panics") }
      | .unreadable =>
        pure { agree := i == ["unreadable"], phi := !inDom, model := "unreadable (reader: Format error)",
               note := (if inDom then "F:C16 [C16:lcs: the reader rejects an instance of the domain]" else "")
                       ++ (if i == ["unreadable"] then "" else " D:exmodel the model says that the reader returns an error") }
      | .ok I =>
      if i == ["panic"] ∨ i == ["unreadable"] then
        pure { agree := false, phi := !inDom, model := "-", note := s!"F:C16 [C16:lcs reader: {join i}] D:exmodel the model reads the instance" }
      else
      let evs := (splitAt ";" i).filter (· ≠ [])
      -- the value-to-go of every valid state the pointwise checks ask about, once per state
      let sts := ((evs.flatMap LcsE.statesOf).eraseDups).filter (LcsModel.validB I)
      let best : LcsE.Cache := sts.map (fun s => (s, LcsModel.bestRem I s))
      let cs := LcsModel.commons lines
      let mut bad : List String := []
      let mut viol : List (String × String) := []
      let mut checked : List Nat := [0, 0, 0, 0, 0]
      for e in evs do
        match LcsE.checkEvent I e with
        | none => bad := bad ++ [s!"unreadable event `{join e}`"]
        | some (true, _) => pure ()
        | some (false, mm) => bad := bad ++ [s!"`{join e}`: the model says {mm}"]
        let (c, v) := LcsE.phiEvent I best cs e
        checked := checked.modify c (· + 1)
        match v with
        | none => pure ()
        | some v => viol := viol ++ [v]
      let merges := evs.filter (fun e => e.head? == some "mg")
      let big := merges.filter (fun e => (e.filter (· == ",")).length ≥ 2)
      let phi := !inDom || viol.isEmpty
      pure { agree := bad.isEmpty, phi := phi,
             model := s!"root {match best.get (LcsModel.initSt I) with | some b => LcsE.showE b | none => "?"} events {evs.length} states {sts.length} merges {merges.length} of3+ {big.length} checks rub {checked.getD 1 0} rx {checked.getD 2 0} dm {checked.getD 3 0} pv {checked.getD 4 0}{if inDom then "" else " out-of-domain"}{if viol.isEmpty then "" else s!" violations {viol.length} ({join (viol.map (·.1)).eraseDups})"}",
             note := (match (if phi then none else viol.head?) with | none => "" | some v => s!"F:C16 [C16:{v.1}: {v.2}]")
                     ++ (if bad.isEmpty then "" else " D:exmodel " ++ (bad.head?.getD "")) }
    | _ => none

end Ddo.Engines
