import DdoModel.Proto
import DdoModel.Engines.Store
import DdoModel.Props.C10b
/-! Driver engine `domcyc` (C10, sentence 1): the counter-example `Ddo.C10.Cyc` (a dominance rule that is admissible in the
    potential form — every dominated state has a dominator with an at-least-as-good best completion — but not
    simulation-consistent) run through the real solvers.  `agree`: the sequential solvers behave as the composed model says
    (with the checker: one turn, `is_exact = true`, value 5; without: 10).  `phi` (C10): enabling the checker does not change the
    value.  On the current code `phi` fails: open known finding D13. -/
namespace Ddo.Engines
open Ddo Ddo.Proto

private def showC (c : Bool × Option Int) : String := s!"{if c.1 then 1 else 0} {match c.2 with | some v => toString v | none => "none"}"

/-- case: `cyc` ; impl: `<name> <exact> <value>` separated by `;` -/
def domcycEngine (c i : List String) : Option Res := do
  if c != ["cyc"] then none else
  let runs := (splitAt ";" i).filter (· ≠ [])
  let mNo := showC ((C10.Cyc.sv false .lel).solveLoop 12 (SeqSt.init C10.Cyc.prob none false)).completion
  let mLel := showC ((C10.Cyc.dv false .lel).solveLoop 12 (C10.Cyc.dv false .lel).init).st.completion
  let mFc := showC ((C10.Cyc.dv false .frontier).solveLoop 12 (C10.Cyc.dv false .frontier).init).st.completion
  let want : List (String × String) := [("seq_lel_nodom", mNo), ("seq_lel_dom", mLel), ("seq_fc_dom", mFc)]
  let get := fun (n : String) => (runs.find? (fun r => r.head? == some n)).map (fun r => join (r.drop 1))
  let bad := want.filter (fun (n, m) => get n != some m)
  let base := get "seq_lel_nodom"
  let changed := runs.filter (fun r => match r with
    | n :: rest => (n.splitOn "_dom").length > 1 && some (join rest) != base
    | _ => false)
  let phi := changed.isEmpty
  pure { agree := bad.isEmpty, phi := phi, model := join (want.map (fun (n, m) => s!"{n} {m} ;")),
         note := (if phi then "" else s!"F:C10 [C10:cyclic-ties the value-admissible rule of Ddo.C10.Cyc changes the result: without the checker {base.getD "?"}, with it {join ((changed.head?).getD [])} ({changed.length} solver configurations)]")
                 ++ (if bad.isEmpty then "" else s!" D:domcyc {(bad.head?.map (·.1)).getD ""}") }

end Ddo.Engines
