import DdoModel.Proto
import DdoModel.Engines.Store
import DdoModel.Examples.McpDp
/-! Family `mcp` of the driver engine `exmodel` (C16) — `McpDp.lean`; statements in `McpModel.lean`.
    `agree` = every event (the matrix the reader built, the tables of `McpRelax::new`, variable order, domains, transitions,
    costs, bounds, merges in the order given, relaxed costs, ranking; panics included — a reader that panics too) is what
    the model says;
    `phi` = pointwise, by exhaustive enumeration over the free vertices with the model's own domains, transitions and costs
    (on the states with one benefit per vertex and a depth `≤ n`):
    * `rub`: the bound THE CODE returned for the state dominates its value-to-go (`RubOk`);
    * `rx`: for the merged-away state `u`, the merged state `m` THE CODE returned (same depth) and the relaxed cost `r` THE
      CODE returned for an arc of cost `c` into `u`: `c + H(u) ≤ r + H(m)` (`MergeOk`, potential form of `Wf.lean`);
    * `pv`: value of the walk prefix + value-to-go of the state reached = the best cut, by the independent specification
      `Mcp.lean` (`Mcp.cutWeight` over the edges of the FILE), among the sides that extend the prefix (at the root this is
      `Mcp.best`, all sides: the symmetry breaking of the root domain loses nothing): the DP model is exact.
    Instances outside the domain of the format (repeated edge, self-loop, end point out of range) are mirrored all the same
    (`agree`), their `phi` is `true` by definition (the violations are counted in the model text). -/
namespace Ddo.Engines
open Ddo Ddo.Proto Ddo.Examples

namespace McpE
open Ddo.Examples.McpModel

def st? (ts : List String) : Option St := do
  let xs ← ints? ts
  match xs with
  | d :: b => if d < 0 then none else some { depth := d.toNat, benef := b }
  | _ => none
def showSt (s : St) : String := join (toString s.depth :: s.benef.map toString)
def showOrd (o : Ordering) : String := match o with | .lt => "lt" | .eq => "eq" | .gt => "gt"
def showRows (rows : List (List Int)) : String := " , ".intercalate (rows.map (fun r => join (r.map toString)))
def showOI (o : Option Int) : String := match o with | some v => toString v | none => "panic"
def showOS (o : Option St) : String := match o with | some s => showSt s | none => "panic"
def showE (o : EInt) : String := match o with | some v => toString v | none => "-inf"
def ints (l : List Int) : String := join (l.map toString)

/-- checks one event against the model; `none` = unreadable, `some (ok, what the model says)` -/
def checkEvent (T : Tab) (e : List String) : Option (Bool × String) :=
  let P := problem T
  match splitAt ":" e with
  | [["nv", k]] => some (k == toString P.nbVars, toString P.nbVars)
  | [("adj" :: ts)] => let m := showRows T.adj; some (join ts == m, m)
  | [["tab", vr], nk, est] =>
    let m := s!"{T.vr} : {ints T.nk} : {ints T.est}"
    some (vr == toString T.vr && join nk == ints T.nk && join est == ints T.est, m)
  | [("ord" :: ts)] =>
    let want := (List.range (T.n + 2)).map (fun d => match P.nextVar d [P.init] with | some v => toString v | none => "n")
    some (ts == want, join want)
  | ["init" :: s, [v]] =>
    let m := showSt P.init
    some (join s == m && v == toString P.initVal, s!"{m} : {P.initVal}")
  | ["rub" :: s, [r]] => do
    let s ← st? s
    let m := showOI (rub? T s)
    pure (r == m, m)
  | ["pv" :: s, [v], decs] => do
    -- the value of a walk prefix: replay of its decisions (vertices 0, 1, …) from the root
    let s ← st? s; let v ← int? v; let vals ← ints? decs
    let ds := (List.range vals.length).zipWith (fun (k : Nat) (x : Int) => (⟨k, x⟩ : Dec)) vals
    match evalFrom P 0 P.init P.initVal ds with
    | some (s2, v2, _) => pure (s2 == s && v2 == v, s!"{showSt s2} : {v2}")
    | none => pure (false, "not a path of the model")
  | ["dom" :: s, [_], vals] => do
    let s ← st? s
    let m := ints (domain s)
    pure (join vals == m, m)
  | ["tr" :: s, [x, v], s2, [c]] => do
    let s ← st? s; let x ← nat? x; let v ← int? v
    let m2 := showOS (trans? T s ⟨x, v⟩)
    -- the harness hands the source state to `transition_cost` when `transition` panicked; the destination is not read
    let k := showOI (cost? T s ⟨x, v⟩)
    pure (join s2 == m2 && c == k, s!"{m2} : {k}")
  | ["rx" :: _, dst, m, [_, _], [c], [r]] => do
    let dst ← st? dst; let m ← st? m; let c ← int? c
    let k := showOI (relax? T dst m c)
    pure (r == k, k)
  | ["rk" :: a, b, [o]] => do
    let a ← st? a; let b ← st? b
    let m := showOrd (rankCmp a b)
    pure (o == m, m)
  | ("mg" :: first) :: rest =>
    -- `mg s1 , s2 , … : m` — in the order given; `mg : panic` = the merge of no state
    match (first :: rest).reverse with
    | m :: [sts] => do
      let sts ← if sts.isEmpty then some [] else (splitAt "," sts).mapM st?
      let k := showOS (merge? T sts)
      pure (join m == k, k)
    | _ => none
  | _ => none

/-- `phi` of one event: `none` = nothing to check or holds; `some (kind, note)` = violated -/
def phiEvent (T : Tab) (n : Nat) (edges : List (Int × Int × Int)) (e : List String) : Option (String × String) :=
  match splitAt ":" e with
  | ["rub" :: s, [r]] =>
    match st? s, int? r with
    | some s, some r =>
      if !validB T s || rubOkAt T s r then none
      else some ("mcp-rub", s!"fast_upper_bound of the state `{showSt s}` is {r} but a completion is worth {showE (bestRem T s)}: the rough upper bound is not admissible")
    | _, _ => none
  | ["rx" :: _, dst, m, _, [c], [r]] =>
    match st? dst, st? m, int? c, int? r with
    | some dst, some m, some c, some r =>
      if !validB T dst || !validB T m || dst.depth != m.depth || mergeOkAt T dst m c r then none
      else some ("mcp-merge", s!"`{showSt dst}` (value-to-go {showE (bestRem T dst)}, arc cost {c}) merged into `{showSt m}` (value-to-go {showE (bestRem T m)}, relaxed arc cost {r}): merge/relax do not over-approximate")
    | _, _, _, _ => none
  | ["pv" :: s, [v], decs] =>
    match st? s, int? v, ints? decs with
    | some s, some v, some decs =>
      let dp := (bestRem T s).addI v
      let spec : EInt := specBestExt n edges decs
      if spec == dp then none
      else some ("mcp-exact", s!"after the decisions {decs} (value {v}, state `{showSt s}`) the DP model reaches at best {showE dp}, the specification {showE spec}: the DP model is not exact")
    | _, _, _ => none
  | _ => none

end McpE

/-- case: `mcp | n m (u v w)*m | walks seed style` (vertices 1-based, as in the instance file) -/
def mcpCase (toks : List String) (i : List String) : Option Res := do
    let t ← ints? toks
    match t with
    | n :: m :: rest =>
      if n < 0 ∨ m < 0 then none else
      let n := n.toNat
      let edges ← Ddo.Examples.Util.triples? rest
      if edges.length ≠ m.toNat then none else
      if McpModel.readerPanics n edges then
        -- an end point outside 1..=n: `Graph::from_lines` panics (`usize` underflow / index out of range)
        pure { agree := i == ["panic"], phi := true, model := "panic (reader: end point out of range)",
               note := if i == ["panic"] then "" else "D:exmodel the model says that the reader panics" }
      else if i == ["panic"] then
        pure { agree := false, phi := false, model := "-", note := "F:C16 [C16:mcp model functions panic]" }
      else
      let evs := ((splitAt ";" i).filter (· ≠ [])).eraseDups
      let T := McpModel.tabOf n edges
      let inDom := McpModel.inDomain n edges
      let mut bad : List String := []
      let mut viol : List (String × String) := []
      for e in evs do
        match McpE.checkEvent T e with
        | none => bad := bad ++ [s!"unreadable event `{join e}`"]
        | some (true, _) => pure ()
        | some (false, mm) => bad := bad ++ [s!"`{join e}`: the model says {mm}"]
        match McpE.phiEvent T n edges e with
        | none => pure ()
        | some v => viol := viol ++ [v]
      let merges := evs.filter (fun e => e.head? == some "mg")
      let big := merges.filter (fun e => (e.filter (· == ",")).length ≥ 2)
      let phi := !inDom || viol.isEmpty
      pure { agree := bad.isEmpty, phi := phi,
             model := s!"events {evs.length} merges {merges.length} of3+ {big.length}{if inDom then "" else " out-of-domain"}{if viol.isEmpty then "" else s!" violations {viol.length} ({join (viol.map (·.1)).eraseDups})"}",
             note := (match (if phi then none else viol.head?) with | none => "" | some v => s!"F:C16 [C16:{v.1}: {v.2}]")
                     ++ (if bad.isEmpty then "" else " D:exmodel " ++ (bad.head?.getD "")) }
    | _ => none

end Ddo.Engines
