import DdoModel.Proto
import DdoModel.Cache
import DdoModel.Dominance
/-! Driver engines `cache` (C18, C09) and `dom` (C10, C18).  Besides re-running the model, each
    engine evaluates the property predicate `phi` on the implementation's outputs against the
    *specification* (max of the recorded thresholds since the last clear / Pareto front of the
    presented history), computed independently of the model's data structures. -/
namespace Ddo.Engines
open Ddo.Proto

structure Res where
  agree : Bool
  phi : Bool
  model : String
  note : String := ""

-- ---------------------------------------------------------------------------------------------
-- cache
def parseCOp : List String → Option (COp Int)
  | ["g", s, d] => do pure (.get (← int? s) (← nat? d))
  | ["u", s, d, v, e] => do pure (.update (← int? s) (← nat? d) ⟨← int? v, e == "1"⟩)
  | ["m", s, d, v] => do pure (.mustExplore (← int? s) (← nat? d) (← int? v))
  | ["l", d] => do pure (.clearLayer (← nat? d))
  | ["c"] => some .clear
  | _ => none

def showThr : Option Thr → String
  | none => "none"
  | some t => s!"t {t.value} {b2s t.explored}"

def showCOut : COut → String
  | .unit => "-" | .panic => "panic" | .thr t => showThr t | .bool b => s!"b {b2s b}"

def parseThr : List String → Option (Option Thr)
  | ["none"] => some none
  | ["t", v, e] => do pure (some ⟨← int? v, e == "1"⟩)
  | _ => none

/-- specification, independent of the model's layers: thresholds recorded for `(s, d)` since layer
    `d` was last cleared, history latest first -/
def specRecorded (s : Int) (d : Nat) : List (COp Int) → List Thr
  | [] => []
  | .update s' d' t :: r => if d' = d ∧ s' = s then t :: specRecorded s d r else specRecorded s d r
  | .clearLayer d' :: r => if d' = d then [] else specRecorded s d r
  | .clear :: _ => []
  | _ :: r => specRecorded s d r

def thrKey (t : Thr) : Int := 2 * t.value + (if t.explored then 1 else 0)
def specMax (l : List Thr) : Option Thr :=
  l.foldl (fun acc t => match acc with | none => some t | some m => if thrKey m < thrKey t then some t else some m) none

/-- phi for a sequential history: every in-range `get` / `must_explore` answer equals the specification -/
def phiCacheSeq (n : Nat) (ops : List (COp Int)) (outs : List (List String)) : Bool :=
  let rec go (hist : List (COp Int)) : List (COp Int) → List (List String) → Bool
    | [], _ => true
    | _, [] => false
    | op :: ops, o :: outs =>
      let ok := match op with
        | .get s d => if d ≤ n then parseThr o == some (specMax (specRecorded s d hist)) else o == ["panic"]
        | .mustExplore s d v =>
          if d ≤ n then
            let want := match specMax (specRecorded s d hist) with
              | none => true
              | some t => decide (v > t.value) || (decide (v = t.value) && !t.explored)
            o == ["b", b2s want]
          else o == ["panic"]
        | .update _ d _ => if d ≤ n then o == ["-"] else o == ["panic"]
        | .clearLayer d => if d ≤ n then o == ["-"] else o == ["panic"]
        | .clear => o == ["-"]
      -- a panicking call must leave the cache unchanged: it is simply not recorded
      let hist' := match op with
        | .update _ d _ => if d ≤ n then op :: hist else hist
        | .clearLayer d => if d ≤ n then op :: hist else hist
        | _ => op :: hist
      ok && go hist' ops outs
  go [] ops outs

instance : BEq Thr := ⟨fun a b => a.value == b.value && a.explored == b.explored⟩

def cacheEngine (c i : List String) : Option Res := do
  match c with
  | "seq" :: n :: rest =>
    let n ← nat? n
    let ops ← (splitAt ";" rest).filter (· ≠ []) |>.mapM parseCOp
    let outs := (splitAt ";" i).filter (· ≠ [])
    let (_, mo) := (Cache.init (S := Int) n).run ops
    let ms := mo.map showCOut
    let agree := ms == outs.map join
    pure { agree := agree, phi := phiCacheSeq n ops outs, model := " ; ".intercalate ms }
  | "conc" :: n :: rest =>
    let n ← nat? n
    -- case: pre | threads | keys ; impl: observations | final
    match splitAt "|" rest, splitAt "|" i with
    | [pre, thr, keys], [obs, fin] =>
      let preOps ← (splitAt ";" pre).filter (· ≠ []) |>.mapM parseCOp
      let threads ← (splitAt "/" thr).mapM (fun th => (splitAt ";" th).filter (· ≠ []) |>.mapM (fun x => parseCOp ("u" :: x)))
      let keys ← (splitAt ";" keys).filter (· ≠ []) |>.mapM (fun k => match k with | [s, d] => do pure ((← int? s), (← nat? d)) | _ => none)
      let obsT ← (splitAt "/" obs).mapM (fun th => (splitAt ";" th).filter (· ≠ []) |>.mapM parseThr)
      let finT ← (splitAt ";" fin).filter (· ≠ []) |>.mapM parseThr
      -- model: any linearisation gives the same final state (updates_perm_invariant): take thread order
      let all := preOps ++ threads.flatten
      let (cm, _) := (Cache.init (S := Int) n).run all
      let mfin := keys.map (fun (s, d) => (cm.get s d).getD none)
      let agree := mfin == finT
      -- phi: final = spec max of all updates; each observation lies between the max of the thread's own
      -- earlier updates (and the pre-phase content) and the max of everything, and never decreases
      let specFin := keys.map (fun (s, d) => specMax (specRecorded s d all.reverse))
      let le (a b : Option Thr) : Bool := match a, b with
        | none, _ => true | some _, none => false | some x, some y => thrKey x ≤ thrKey y
      let okThread (ops : List (COp Int)) (os : List (Option Thr)) : Bool :=
        let rec go (own : List (COp Int)) : List (COp Int) → List (Option Thr) → Bool
          | [], [] => true
          | op :: ops, o :: os =>
            let own' := op :: own
            (match op with
             | .update s d _ =>
               le (specMax (specRecorded s d (own' ++ preOps.reverse))) o && le o (specMax (specRecorded s d all.reverse))
             | _ => true) && go own' ops os
          | _, _ => false
        go [] ops os
      let phi := (specFin == finT) && (threads.zip obsT).all (fun (t, o) => okThread t o) && threads.length == obsT.length
      pure { agree := agree, phi := phi, model := " ; ".intercalate (mfin.map showThr) }
    | _, _ => none
  | _ => none

-- ---------------------------------------------------------------------------------------------
-- dominance
structure DSt where
  key : Option Int
  coords : List Int
deriving DecidableEq, Repr

def domRule (uv : Bool) : DomRule DSt Int :=
  { key := fun s => s.key, dims := fun s => s.coords.length, coord := fun s i => s.coords.getD i 0, useValue := uv }

inductive DOp | q (s : DSt) (d : Nat) (v : Int) | clearLayer (d : Nat)

def parseQ : List String → Option (DSt × Nat × Int)
  | d :: v :: k :: nd :: cs => do
    let d ← nat? d; let v ← int? v
    let key ← if k == "n" then pure none else (int? k).map some
    let nd ← nat? nd
    let cs ← ints? cs
    if cs.length ≠ nd then none else pure (⟨key, cs⟩, d, v)
  | _ => none

def parseDOp : List String → Option DOp
  | ["l", d] => do pure (.clearLayer (← nat? d))
  | "q" :: r => do let (s, d, v) ← parseQ r; pure (.q s d v)
  | _ => none

def showDRes (dom : Bool) (thr : Option Int) : String := s!"{b2s dom} {optInt thr}"

def showOrd : Ordering → String | .lt => "lt" | .eq => "eq" | .gt => "gt"

/-- reference semantics on the presented history (same depth and key, since the last clear of that depth) -/
def geRef (uv : Bool) (a : DSt × Int) (b : DSt × Int) : Bool :=
  (a.1.coords.zip b.1.coords).all (fun (x, y) => decide (y ≤ x)) && (!uv || decide (b.2 ≤ a.2))
def domRef (uv : Bool) (a b : DSt × Int) : Bool := geRef uv a b && !geRef uv b a

def runDom (uv : Bool) (n : Nat) (ops : List DOp) : List String × DomStore DSt Int :=
  ops.foldl (fun (acc, st) op =>
    match op with
    | .q s d v => match DomStore.query (domRule uv) st s d v with
      | none => (acc ++ ["panic"], st)
      | some (st', dom, thr) => (acc ++ [showDRes dom thr], st')
    | .clearLayer d => match st.clearLayer d with
      | none => (acc ++ ["panic"], st)
      | some st' => (acc ++ ["-"], st')) ([], DomStore.init n)

/-- phi: verdicts equal the Pareto semantics over the presented history; thresholds are sound and ≥ value -/
def phiDomSeq (uv : Bool) (n : Nat) (ops : List DOp) (outs : List (List String)) : Bool :=
  let rec go (hist : List (DSt × Nat × Int)) : List DOp → List (List String) → Bool
    | [], _ => true
    | _, [] => false
    | op :: ops, o :: outs =>
      match op with
      | .clearLayer d =>
        (if d ≤ n then o == ["-"] else o == ["panic"]) && go (if d ≤ n then hist.filter (fun h => h.2.1 ≠ d) else hist) ops outs
      | .q s d v =>
        match s.key with
        | none => o == ["0", "none"] && go hist ops outs
        | some k =>
          if d > n then o == ["panic"] && go hist ops outs else
          let same := hist.filter (fun h => h.2.1 = d ∧ h.1.key = some k)
          let dominated := same.any (fun h => domRef uv (h.1, h.2.2) (s, v))
          let ok := match o with
            | [dm, thr] =>
              dm == b2s dominated &&
              (if dominated then
                match thr.toInt? with
                | none => false
                | some t => decide (v ≤ t) && same.any (fun h => domRef uv (h.1, h.2.2) (s, t))
               else thr == "none")
            | _ => false
          ok && go ((s, d, v) :: hist) ops outs
  go [] ops outs

def domEngine (c i : List String) : Option Res := do
  match c with
  | "seq" :: n :: uv :: rest =>
    let n ← nat? n
    let uv := uv == "1"
    let ops ← (splitAt ";" rest).filter (· ≠ []) |>.mapM parseDOp
    match splitAt "|" i with
    | [outsT, cmpsT] =>
      let outs := (splitAt ";" outsT).filter (· ≠ [])
      let (ms, _) := runDom uv n ops
      -- comparator on the first six presented entries
      let qs := (ops.filterMap (fun o => match o with | .q s _ v => some (s, v) | _ => none)).take 6
      let D := domRule uv
      let pairs := qs.flatMap (fun a => qs.map (fun b => (a, b)))
      let mcmps := pairs.map (fun (a, b) => if a.1.coords.length = b.1.coords.length then showOrd (D.cmp a.1 a.2 b.1 b.2) else "x")
      -- phi for cmp: a dominating state ranks first (Greater)
      let phiCmp := (pairs.zip cmpsT).all (fun ((a, b), r) =>
        if a.1.coords.length = b.1.coords.length && domRef uv a b then r == "gt" else true) && pairs.length == cmpsT.length
      let agree := ms == outs.map join && mcmps == cmpsT
      pure { agree := agree, phi := phiDomSeq uv n ops outs && phiCmp, model := " ; ".intercalate ms ++ " | " ++ join mcmps }
    | _ => none
  | "perm" :: n :: uv :: rest =>
    -- the same states recorded in two orders (implementation, twice), then the same probes: C18 order independence
    let n ← nat? n
    let uv := uv == "1"
    match splitAt "|" rest with
    | [ph, probes] =>
      let phase ← (splitAt ";" ph).filter (· ≠ []) |>.mapM parseQ
      let probes ← (splitAt ";" probes).filter (· ≠ []) |>.mapM parseQ
      match splitAt "/" i with
      | [oa, ob] =>
        let outsA := (splitAt ";" oa).filter (· ≠ [])
        let outsB := (splitAt ";" ob).filter (· ≠ [])
        let ops := phase.map (fun (s, d, v) => DOp.q s d v) ++ probes.map (fun (s, d, v) => DOp.q s d v)
        let (ms, _) := runDom uv n ops
        let mfin := ms.drop phase.length
        let same := outsA == outsB
        pure { agree := mfin == outsA.map join, phi := same, model := " ; ".intercalate mfin,
               note := if same then "" else "F:C18 [C18:the dominance store answers the same probes differently after the same states were recorded in another order]" }
      | _ => none
    | _ => none
  | "conc" :: n :: uv :: rest =>
    let n ← nat? n
    let uv := uv == "1"
    match splitAt "|" rest with
    | [thr, probes] =>
      let threads ← (splitAt "/" thr).mapM (fun th => (splitAt ";" th).filter (· ≠ []) |>.mapM parseQ)
      let probes ← (splitAt ";" probes).filter (· ≠ []) |>.mapM parseQ
      let outs := (splitAt ";" i).filter (· ≠ [])
      let phase := threads.flatten.map (fun (s, d, v) => DOp.q s d v)
      let pr := probes.map (fun (s, d, v) => DOp.q s d v)
      let (ms, _) := runDom uv n (phase ++ pr)
      let mfin := ms.drop phase.length
      -- phi: the probes are answered as by the Pareto front of *all* recorded states (any order)
      let phaseOuts := (ms.take phase.length).map toks
      let phi := phiDomSeq uv n (phase ++ pr) (phaseOuts ++ outs)
      pure { agree := mfin == outs.map join, phi := phi, model := " ; ".intercalate mfin }
    | _ => none
  | _ => none

end Ddo.Engines
