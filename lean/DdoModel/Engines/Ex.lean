import DdoModel.Proto
import DdoModel.Engines.Store
import DdoModel.Examples.Knapsack
import DdoModel.Examples.Misp
import DdoModel.Examples.Max2sat
import DdoModel.Examples.Mcp
import DdoModel.Examples.Lcs
import DdoModel.Examples.Golomb
import DdoModel.Examples.Psp
import DdoModel.Examples.Sop
import DdoModel.Examples.Tsptw
import DdoModel.Examples.Srflp
import DdoModel.Examples.Talentsched
import DdoModel.Examples.Alp
/-! Driver engine `ex` (C16): the objective printed by a shipped example program vs. the independent
    exhaustive specification of its combinatorial problem.
    case: `<name> <width|-1> <threads> | <spec tokens> | <hex of the instance file>`;
    impl: `obj <int> aborted <0/1>` | `crash <code>` | `timeout`. -/
namespace Ddo.Engines
open Ddo.Proto

/-- what the specification says the program must print as `Objective:` -/
def exSpec (name : String) (toks : List Int) : Option Int :=
  match name with
  | "knapsack" => Examples.Knapsack.specFromTokens toks
  | "misp" => Examples.Misp.specFromTokens toks
  | "max2sat" => Examples.Max2sat.specFromTokens toks
  | "mcp" => Examples.Mcp.specFromTokens toks
  | "lcs" => Examples.Lcs.specFromTokens toks
  | "golomb" => Examples.Golomb.specFromTokens toks
  | "psp" => Examples.Psp.specFromTokens toks
  | "sop" => Examples.Sop.specFromTokens toks
  | "tsptw" => Examples.Tsptw.specFromTokens toks
  | "srflp" => Examples.Srflp.specFromTokens toks
  | "talentsched" => Examples.Talentsched.specFromTokens toks
  | "alp" => Examples.Alp.specFromTokens toks
  | _ => none

def exEngine (c i : List String) : Option Res := do
  match splitAt "|" c with
  | [name :: _w :: _t :: _, toks, _file] =>
    let toks ← ints? toks
    match exSpec name toks with
    | none => none
    | some want =>
      let (ok, why) := match i with
        | ["obj", v, "aborted", ab] =>
          if ab != "0" then (false, "the example reports Aborted: true on a tiny instance")
          else if v.toInt? == some want then (true, "")
          else (false, s!"objective {v}, the exhaustive specification says {want}")
        | "crash" :: _ => (false, "the example crashes")
        | ["timeout"] => (false, "the example does not terminate within the watchdog")
        | _ => (false, "unreadable output")
      pure { agree := true, phi := ok, model := toString want,
             note := if ok then "" else s!"F:C16 [C16:{name}: {why}]" }
  | _ => none

end Ddo.Engines
