import DdoModel.Proto
import DdoModel.Gap
import DdoModel.GapFloat
import DdoModel.Width
import DdoModel.Engines.Store
/-! Driver engines for the small models: `gap` (C17) and `width` (C13 combinators). -/
namespace Ddo.Engines
open Ddo.Proto


def parseFOut : List String → Option FOut
  | ["nan"] => some .nan
  | ["inf", n] => some (.inf (n == "1"))
  | ["fin", n, m, e] => do
      let m ← nat? m; let e ← int? e
      pure (.fin ⟨n == "1", m, e⟩)
  | _ => none

def showGap : Gap → String
  | .one => "one" | .nan => "nan" | .frac n d => s!"frac {n} {d}"

/-- case: `lb ub` ; impl: `nan | inf s | fin s mant exp` -/
def gapEngine (c i : List String) : Option Res := do
  match c with
  | [lb, ub] =>
    let lb ← int? lb; let ub ← int? ub
    let o ← parseFOut i
    let g := gap lb ub
    -- bit-exact: the binary32 model of the computation (`GapFloat.lean`: round-to-nearest-even conversions and division)
    let mf := gapFTokens lb ub
    pure { agree := gapAgrees g o && i == mf, phi := phiGap lb ub o, model := showGap g ++ " = " ++ join mf }
  | _ => none

partial def parseW : List String → Option (WExpr × List String)
  | "F" :: w :: r => do let w ← nat? w; pure (.fixed w, r)
  | "N" :: n :: r => do let n ← nat? n; pure (.nbUnassigned n, r)
  | "T" :: k :: r => do let k ← nat? k; let (e, r') ← parseW r; pure (.times k e, r')
  | "D" :: k :: r => do let k ← nat? k; let (e, r') ← parseW r; pure (.divBy k e, r')
  | _ => none

/-- case: `pathLen <expr…>` ; impl: `panic | <usize>` -/
def widthEngine (c i : List String) : Option Res := do
  match c with
  | pl :: e =>
    let pl ← nat? pl
    let (e, _) ← parseW e
    let m := e.eval pl
    let ms := match m with | none => "panic" | some w => toString w
    let phi := match i with
      | ["panic"] => true
      | [w] => if e.isCombinator then w ≠ "0" else true
      | _ => false
    pure { agree := i == [ms], phi := phi, model := ms }
  | _ => none

end Ddo.Engines
