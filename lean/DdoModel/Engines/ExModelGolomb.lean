import DdoModel.Proto
import DdoModel.Engines.Store
import DdoModel.Examples.GolombDp
/-! Family `golomb` of the driver engine `exmodel` (C16) — `GolombDp.lean`; statements in `GolombModel.lean`.
    `agree` = every event (number of variables, variable order, domains, transitions, costs, bounds, merges in the order given,
    relaxed costs, ranking; panics included) is what the model says;
    `phi` = pointwise, by enumeration over the remaining variables with the model's own domains, transitions and costs
    (`bestRemBB`: the enumeration with the one cut the costs allow; compared with the plain enumeration `bestRem` on the small
    cases — a difference is reported as `golomb-enum`):
    * `rub`: the bound THE CODE returned for the state dominates its value-to-go (`RubOk`), on every state with at most `n`
      marks (walks, exact layers, merged states, states reached from merged states, arbitrary increasing mark sequences);
    * `rx`: for the merged-away state `u`, the merged state `m` THE CODE returned and the relaxed cost `r` THE CODE returned
      for an arc of cost `c` into `u` (same number of marks):
        - `golomb-merge` — in absolute positions, `c - u.last + H(u) ≤ r - m.last + H(m)`: every completion of `u` is a
          completion of `m` that ends on the same mark (or `m` has a better one);
        - `golomb-merge-arc` — the potential form of `Wf.lean`, `c + H(u) ≤ r + H(m)`.  It does NOT hold for this example: the
          merged state takes the LEAST last mark and the cost of the arc into it is left unchanged, so a path through a
          merged-away state with a larger last mark pays the gap twice (`GolombModel.merge_arc_form_fails`).  Consequence
          reproduced on the library with the example's own model: cut-set nodes of relaxed compilations get an upper bound
          BELOW their optimum (n = 6, width 1, sub-problem `0 2 7`: the node `0 2 7 13` gets −18, the optimal ruler
          `0 2 7 13 16 17` goes through it).  The bound of a whole diagram stays valid (the value of a state is a function
          of the state, `-last_mark`, and the merged state is entered by the arc of the least last mark), and no wrong
          optimum was obtained end to end (sizes 3..8, widths 1..48, six solver configurations): recorded as an observation
          (`O:` note, counted in the model text as `arc-form`; `far` = the merged states do not share their parent), not as a
          `phi` failure — `arcFormIsFinding` turns it into one;
    * `pv`: value of the walk prefix + value-to-go of the state reached = minus the least length, by the independent
      specification `Golomb.lean` (`specLeast`), among the Golomb rulers that extend the prefix (none ↔ none);
    * `init`: at the root this is `Golomb.shortest n` itself (n ≤ 6). -/
namespace Ddo.Engines
open Ddo Ddo.Proto Ddo.Examples

namespace GolombE
open Ddo.Examples.GolombModel

/-- does a violation of the potential form of `MergeOk` (`golomb-merge-arc`) fail `phi`? -/
def arcFormIsFinding : Bool := false

def nats? (ts : List String) : Option (List Nat) := ts.mapM nat?

/-- a state: `number_of_marks last_mark m <marks> d <distances>` -/
def st? (ts : List String) : Option St :=
  match ts with
  | a :: b :: "m" :: rest =>
    match rest.dropWhile (· ≠ "d") with
    | "d" :: ds => do
      let nm ← nat? a; let l ← nat? b
      let ms ← nats? (rest.takeWhile (· ≠ "d")); let ds ← nats? ds
      pure { marks := ms, dists := ds, nm := nm, last := l }
    | _ => none
  | _ => none
def showSt (s : St) : String :=
  join ([toString s.nm, toString s.last, "m"] ++ s.marks.map toString ++ ["d"] ++ s.dists.map toString)
def showOrd (o : Ordering) : String := match o with | .lt => "lt" | .eq => "eq" | .gt => "gt"
def showOI (o : Option Int) : String := match o with | some v => toString v | none => "panic"
def showOS (o : Option St) : String := match o with | some s => showSt s | none => "panic"
def showE (o : EInt) : String := match o with | some v => toString v | none => "-inf"

/-- replay of the decisions of a walk prefix (variables 0, 1, …) from the root with the model: every decision in the domain -/
def replayFrom (n : Nat) : St → Int → Nat → List Int → Option (St × Int)
  | s, v, _, [] => some (s, v)
  | s, v, k, x :: r =>
    if (nextVar? n k).getD none == some k ∧ (domain n k s).contains x then
      match trans? s ⟨k, x⟩ with
      | some s2 => replayFrom n s2 (v + cost s ⟨k, x⟩) (k + 1) r
      | none => none
    else none

/-- checks one event against the model; `none` = unreadable, `some (ok, what the model says)` -/
def checkEvent (n : Nat) (e : List String) : Option (Bool × String) :=
  match splitAt ":" e with
  | [["nv", k]] => let m := match nbVars? n with | some v => toString v | none => "panic"; some (k == m, m)
  | [("ord" :: ts)] =>
    let want := match nextVar? n 0 with
      | none => ["panic"]
      | some _ => (List.range (n + 2)).map (fun d => match (nextVar? n d).getD none with | some v => toString v | none => "n")
    some (ts == want, join want)
  | ["init" :: s, [v]] =>
    let m := showSt initSt
    some (join s == m && v == "0", s!"{m} : 0")
  | ["rub" :: s, [r]] => do
    let s ← st? s
    let m := showOI (rub? n s)
    pure (r == m, m)
  | ["pv" :: s, [v], decs] => do
    let s ← st? s; let v ← int? v; let vals ← ints? decs
    match replayFrom n initSt 0 0 vals with
    | some (s2, v2) => pure (s2 == s && v2 == v, s!"{showSt s2} : {v2}")
    | none => pure (false, "not a path of the model")
  | ["dom" :: s, [_], vals] => do
    let s ← st? s
    let m := match domain? n s with | some l => join (l.map toString) | none => "panic"
    pure (join vals == m, m)
  | ["tr" :: s, [x, v], s2, [c]] => do
    let s ← st? s; let x ← nat? x; let v ← int? v
    let m2 := showOS (trans? s ⟨x, v⟩)
    let k := toString (cost s ⟨x, v⟩)
    pure (join s2 == m2 && c == k, s!"{m2} : {k}")
  | ["rx" :: src, dst, m, [x, v], [c], [r]] => do
    let src ← st? src; let dst ← st? dst; let m ← st? m; let x ← nat? x; let v ← int? v; let c ← int? c
    let k := (relaxation n).relax src dst m ⟨x, v⟩ c
    pure (r == toString k, toString k)
  | ["rk" :: a, b, [o]] => do
    let a ← st? a; let b ← st? b
    let m := showOrd (rankCmp a b)
    pure (o == m, m)
  | ("mg" :: first) :: rest =>
    -- `mg s1 , s2 , … : m` — in the order given; `mg : m` = the merge of no state
    match (first :: rest).reverse with
    | m :: [sts] => do
      let sts ← if sts.isEmpty then some [] else (splitAt "," sts).mapM st?
      let k := mergeStates sts
      pure (join m == showSt k, showSt k)
    | _ => none
  | _ => none

/-- value-to-go of a state, memoised per case; a difference between the two enumerations is recorded in the third component -/
def hOf (n : Nat) (memo : List (St × EInt)) (s : St) : EInt × List (St × EInt) × Option String :=
  match memo.find? (fun e => e.1 == s) with
  | some e => (e.2, memo, none)
  | none =>
    let h := bestRemBB n s
    let fuel := n - s.nm
    let bad :=
      if n ≤ 4 ∨ fuel ≤ 1 ∨ (n ≤ 5 ∧ fuel ≤ 2) then
        let h0 := bestRem n s
        if h0 == h then none else some s!"value-to-go of `{showSt s}`: plain enumeration {showE h0}, cut enumeration {showE h}"
      else none
    (h, (s, h) :: memo, bad)

/-- `phi` of one event: the violations (kind, note) and the memo -/
def phiEvent (n : Nat) (memo : List (St × EInt)) (e : List String) : List (String × String) × List (St × EInt) :=
  match splitAt ":" e with
  | ["init" :: s, [v]] =>
    match st? s, int? v with
    | some s, some v =>
      if n > 6 ∨ n < 1 then ([], memo) else
      let (h, memo, bad) := hOf n memo s
      let dp := h.addI v
      let spec : EInt := (Golomb.shortest n).map (fun L => -(L : Int))
      ((if spec == dp then [] else [("golomb-exact", s!"from the root the DP model reaches at best {showE dp}, the specification `Golomb.shortest {n}` says {showE spec}: the DP model is not exact")])
        ++ (match bad with | some b => [("golomb-enum", b)] | none => []), memo)
    | _, _ => ([], memo)
  | ["rub" :: s, [r]] =>
    match st? s, int? r with
    | some s, some r =>
      if s.nm > n then ([], memo) else
      let (h, memo, bad) := hOf n memo s
      ((if rubOkAt h r then [] else [("golomb-rub", s!"fast_upper_bound of the state `{showSt s}` is {r} but a completion is worth {showE h}: the rough upper bound is not admissible")])
        ++ (match bad with | some b => [("golomb-enum", b)] | none => []), memo)
    | _, _ => ([], memo)
  | ["rx" :: _, dst, m, _, [c], [r]] =>
    match st? dst, st? m, int? c, int? r with
    | some u, some m, some c, some r =>
      if u.nm ≠ m.nm ∨ u.nm > n then ([], memo) else
      let (hu, memo, _) := hOf n memo u
      let (hm, memo, _) := hOf n memo m
      let what := s!"`{showSt u}` (value-to-go {showE hu}, arc cost {c}) merged into `{showSt m}` (value-to-go {showE hm}, relaxed arc cost {r})"
      if !mergeAbsOkAt u m hu hm c r then
        ([("golomb-merge", what ++ ": the merged state does not reach the marks the merged-away state reaches")], memo)
      else if !mergeOkAt hu hm c r then
        ([(if m.marks.length + 1 < m.nm then "golomb-merge-arc-far" else "golomb-merge-arc", what ++ ": the arc into the merged state loses potential (the merged state has a smaller last mark and the cost of the arc is unchanged)")], memo)
      else ([], memo)
    | _, _, _, _ => ([], memo)
  | ["pv" :: s, [v], decs] =>
    match st? s, int? v, ints? decs with
    | some s, some v, some decs =>
      if s.nm > n then ([], memo) else
      let (h, memo, _) := hOf n memo s
      let dp := h.addI v
      let spec := specBestExt n decs
      ((if spec == dp then [] else [("golomb-exact", s!"after the decisions {decs} (value {v}, state `{showSt s}`) the DP model reaches at best {showE dp}, the specification {showE spec}: the DP model is not exact")]), memo)
    | _, _, _ => ([], memo)
  | _ => ([], memo)

end GolombE

/-- case: `golomb | n | walks seed` -/
def golombCase (toks : List String) (i : List String) : Option Res := do
    let t ← ints? toks
    match t with
    | [n] =>
      if n < 0 then none else
      let n := n.toNat
      if i == ["panic"] then
        pure { agree := false, phi := false, model := "-", note := "F:C16 [C16:golomb model functions panic]" }
      else
      let evs := ((splitAt ";" i).filter (· ≠ [])).eraseDups
      -- the value-to-go is enumerated only inside the domain of the example (and for sizes the enumeration handles)
      let inDomain := decide (1 ≤ n ∧ n ≤ 8)
      let mut bad : List String := []
      let mut viol : List (String × String) := []
      let mut memo : List (GolombModel.St × EInt) := []
      for e in evs do
        match GolombE.checkEvent n e with
        | none => bad := bad ++ [s!"unreadable event `{join e}`"]
        | some (true, _) => pure ()
        | some (false, m) => bad := bad ++ [s!"`{join e}`: the model says {m}"]
        if inDomain then
          let (v, memo') := GolombE.phiEvent n memo e
          memo := memo'
          viol := viol ++ v
      let merges := evs.filter (fun e => e.head? == some "mg")
      let big := merges.filter (fun e => (e.filter (· == ",")).length ≥ 2)
      let arc := viol.filter (fun v => v.1 == "golomb-merge-arc" ∨ v.1 == "golomb-merge-arc-far")
      let far := viol.filter (fun v => v.1 == "golomb-merge-arc-far")
      let hard := if GolombE.arcFormIsFinding then viol else viol.filter (fun v => v.1 ≠ "golomb-merge-arc" ∧ v.1 ≠ "golomb-merge-arc-far")
      let lead := match hard.head? with | some v => some v | none => (match far.head? with | some v => some v | none => arc.head?)
      pure { agree := bad.isEmpty, phi := hard.isEmpty,
             model := s!"events {evs.length} merges {merges.length} of3+ {big.length} states {memo.length} arc-form {arc.length} far {far.length}{if hard.isEmpty then "" else s!" violations {hard.length}"}",
             note := (match lead with
                      | none => ""
                      | some v => if (v.1 == "golomb-merge-arc" ∨ v.1 == "golomb-merge-arc-far") ∧ !GolombE.arcFormIsFinding then s!"O:C16 [C16:{v.1}: {v.2}]" else s!"F:C16 [C16:{v.1}: {v.2}]")
                     ++ (if bad.isEmpty then "" else " D:exmodel " ++ (bad.head?.getD "")) }
    | _ => none

end Ddo.Engines
