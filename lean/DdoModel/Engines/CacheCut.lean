import DdoModel.Proto
import DdoModel.Engines.Store
import DdoModel.Props.C05e
/-! Driver engine `cachecut` (C05: parallel solver + threshold cache + cut-off): the witness `Ddo.ParCache.CutWitness`
    (`Proofs/ParCacheCutWitness.lean`, `Ddo.C05e.parallel_caching_cutoff_ub_false`) replayed on the real parallel solver under the
    schedule of the model (imposed through hook H1).  case: `cutwitness <opt>`; impl: `<name> <exact> <value> <lb> <ub> phase <p> pops …`
    separated by `;`.  `phi` (C05): every run reports `best_lb ≤ opt ≤ best_ub` and claims exactness only with the optimum.
    On the current code `phi` fails for the runs with the cache (`best_ub = 4 < 6`): open known finding D21. -/
namespace Ddo.Engines
open Ddo Ddo.Proto

def cachecutEngine (c i : List String) : Option Res := do
  match c with
  | ["cutwitness", opt] =>
    let opt ← opt.toInt?
    let runs := (splitAt ";" i).filter (· ≠ [])
    let bad := runs.filter (fun r => match r with
      | _ :: ex :: v :: lb :: ub :: _ =>
        match lb.toInt?, ub.toInt? with
        | some lb, some ub => !(decide (lb ≤ opt) && decide (opt ≤ ub)) || (ex == "1" && v != toString opt)
        | _, _ => true
      | _ => true)
    let phi := bad.isEmpty
    -- the model's prediction for the cached runs: (is_exact = false, Some 6), best_lb = 6, best_ub = 4 (CutWitness.end_obs)
    let cached := runs.filter (fun r => (r.head?.getD "").startsWith "cache")
    let agree := cached.all (fun r => match r with | _ :: ex :: v :: lb :: ub :: _ => ex == "0" && v == "6" && lb == "6" && ub == "4" | _ => false)
    pure { agree := agree, phi := phi, model := "cached runs: 0 6 6 4 (CutWitness.end_obs)",
           note := (if phi then "" else s!"F:C05 [C05:parallel-cache-cutoff after a cut-off the parallel solver with SimpleCache reports best_upper_bound below the optimum {opt} (and below best_lower_bound): {join ((bad.head?.getD []).take 5)}; {bad.length} runs]")
                   ++ (if agree then "" else " D:cachecut the cached runs differ from the model's prediction") }
  | _ => none

end Ddo.Engines
