import DdoModel.Proto
import DdoModel.Engines.Store
import DdoModel.Examples.SrflpDp
/-! Family `srflp` of the driver engine `exmodel` (C16) — `SrflpDp.lean`; statements in `SrflpModel.lean`.
    `agree` = every event (the instance the reader built, clearance included, the sorted tables of `Srflp::new`, `root_value`,
    variable order, domains, transitions, costs, `is_impacted_by`, bounds, merges in the order given, relaxed costs, ranking,
    width, the printed objective; panics included) is what the model says;
    `phi` = pointwise, by exhaustive enumeration over the remaining positions with the model's own domains, transitions and
    costs, on the instances of the example's domain (`inDomainB`: positive lengths, symmetric non-negative flows):
    * `rub`: the bound THE CODE returned for the state dominates its value-to-go (`RubOk`), on the states that satisfy the
      layer-validity predicate `validB` (not terminal, disjoint sets, `|must| ≤ n - depth ≤ |must| + |maybe|`, cuts `≥ 0`);
      a violation that disappears when the ratios of the bound are compared exactly instead of as `f32` is named
      `srflp-rub-f32` (the known finding: flows in the millions), any other `srflp-rub`;
    * `rx`: for the merged-away state `u`, the merged state `m` THE CODE returned and the relaxed cost `r` THE CODE returned
      for an arc of cost `c` into `u`: `c + H(u) ≤ r + H(m)` (`MergeOk`, potential form of `Wf.lean`), for valid or terminal `u`;
    * `pv`: TWICE (root constant − (value of the walk prefix + value-to-go of the state reached)), i.e. twice what `main.rs`
      prints as `Objective`, = the least `cost2`, by the independent specification `Srflp.lean`, among the orders that begin
      with the prefix (at the root this is `Srflp.spec`): the DP model is exact and the printed objective is the
      specification's;
    * `obj`: twice the printed objective of a complete walk = `cost2` of that order.
    On instances outside the domain (tags `ood_*`) the violations are counted in the model text, `phi` stays true. -/
namespace Ddo.Engines
open Ddo Ddo.Proto Ddo.Examples

namespace SrflpE
open Ddo.Examples.SrflpModel

def nats? (ts : List String) : Option (List Nat) := ts.mapM nat?

/-- `depth m <must> y <maybe> c <cut>` / `depth m <must> n c <cut>` -/
def st? (ts : List String) : Option St :=
  match ts with
  | d :: "m" :: rest => do
    let d ← nat? d
    let must ← nats? (rest.takeWhile (fun t => t ≠ "y" && t ≠ "n"))
    match rest.dropWhile (fun t => t ≠ "y" && t ≠ "n") with
    | "n" :: "c" :: cut => do
      let cut ← ints? cut
      pure { depth := d, must := must, maybe := none, cut := cut }
    | "y" :: r2 => do
      let mb ← nats? (r2.takeWhile (· ≠ "c"))
      match r2.dropWhile (· ≠ "c") with
      | "c" :: cut => do
        let cut ← ints? cut
        pure { depth := d, must := must, maybe := some mb, cut := cut }
      | _ => none
    | _ => none
  | _ => none
def showSt (s : St) : String :=
  join ([toString s.depth, "m"] ++ s.must.map toString ++ (match s.maybe with | none => ["n"] | some mb => "y" :: mb.map toString)
        ++ ["c"] ++ s.cut.map toString)
def showOrd (o : Ordering) : String := match o with | .lt => "lt" | .eq => "eq" | .gt => "gt"
def showOI (o : Option Int) : String := match o with | some v => toString v | none => "panic"
def showOS (o : Option St) : String := match o with | some s => showSt s | none => "panic"
def showE (o : EInt) : String := match o with | some v => toString v | none => "-inf"

/-- checks one event against the model; `none` = unreadable, `some (ok, what the model says)` -/
def checkEvent (T : Tab) (e : List String) : Option (Bool × String) :=
  let P := problem T
  let R := relaxation T
  match splitAt ":" e with
  | [["dims", a]] => some (a == toString T.n, toString T.n)
  | [("len" :: ts)] => let m := T.len.map toString; some (ts == m, join m)
  | [("flw" :: ts)] => let m := " , ".intercalate (T.flw.map (fun r => join (r.map toString))); some (join ts == m, m)
  | [("sl" :: ts)] => let m := " , ".intercalate (T.sl.map (fun x => s!"{x.1} {x.2}")); some (join ts == m, m)
  | [("sf" :: ts)] => let m := " , ".intercalate (T.sf.map (fun x => s!"{x.1} {x.2.1} {x.2.2}")); some (join ts == m, m)
  | [["rv", x]] => let m := showHalf (root2 T); some (x == m, m)
  | [["nv", k]] => some (k == toString P.nbVars, toString P.nbVars)
  | [("ord" :: ts)] =>
    let want := (List.range (T.n + 2)).map (fun d => match P.nextVar d [P.init] with | some v => toString v | none => "n")
    some (ts == want, join want)
  | ["init" :: s, [v]] =>
    let m := showSt P.init
    some (join s == m && v == toString P.initVal, s!"{m} : {P.initVal}")
  | ["rub" :: s, [r]] => do
    let s ← st? s
    let m := showOI (rub? T s)
    -- with a department of length 0 (out of the domain, `ood_zero_length`) the exact comparison `c l' ? c' l` of the repaired
    -- bound is not a consistent order (length 0, cut 0 compares equal to everything): what `sort_unstable_by` returns is then
    -- implementation-defined and is not modelled; a panic must still be a panic
    if T.len.any (fun l => decide (l ≤ 0)) then pure ((r == "panic") == (m == "panic"), m) else
    pure (r == m, m)
  | ["pv" :: s, [v], decs] => do
    -- the value of a walk prefix: replay of its decisions (variables 0, 1, …) from the root
    let s ← st? s; let v ← int? v; let vals ← ints? decs
    let ds := (List.range vals.length).zipWith (fun (k : Nat) (x : Int) => (⟨k, x⟩ : Dec)) vals
    match evalFrom P 0 P.init P.initVal ds with
    | some (s2, v2, _) => pure (s2 == s && v2 == v, s!"{showSt s2} : {v2}")
    | none => pure (false, "not a path of the model")
  | [["obj", v], [x]] => do
    let v ← int? v
    let m := showHalf (root2 T - 2 * v)
    pure (x == m, m)
  | ["dom" :: s, [x], vals] => do
    let s ← st? s; let x ← nat? x
    let m := match domain? T s with | some l => join (l.map toString) | none => "panic"
    let _ := x
    pure (join vals == m, m)
  | ["imp" :: s, [x], [b]] => do
    let s ← st? s; let x ← nat? x
    pure (b == b2s (P.impacted x s), b2s (P.impacted x s))
  | ["tr" :: s, [x, v], s2, [c]] => do
    let s ← st? s; let x ← nat? x; let v ← int? v
    let m2 := showOS (trans? T s ⟨x, v⟩)
    let k := showOI (cost? T s ⟨x, v⟩)
    pure (join s2 == m2 && c == k, s!"{m2} : {k}")
  | ["rx" :: src, dst, m, [x, v], [c], [r]] => do
    let src ← st? src; let dst ← st? dst; let m ← st? m; let x ← nat? x; let v ← int? v; let c ← int? c
    let k := R.relax src dst m ⟨x, v⟩ c
    pure (r == toString k, toString k)
  | ["rk" :: a, b, [o]] => do
    let a ← st? a; let b ← st? b
    let m := showOrd (rankCmp a b)
    pure (o == m, m)
  | [["wd", nb, f], [w]] => do
    let nb ← nat? nb; let f ← nat? f
    pure (w == toString (maxWidth nb f), toString (maxWidth nb f))
  | ("mg" :: first) :: rest =>
    -- `mg s1 , s2 , … : m` — in the order given
    match (first :: rest).reverse with
    | m :: [sts] => do
      let sts ← (splitAt "," sts).mapM st?
      let k := R.merge sts
      pure (join m == showSt k, showSt k)
    | _ => none
  | _ => none

/-- `phi` of one event: `none` = nothing to check; `some (kind, none)` = checked, holds; `some (kind, some note)` = violated -/
def phiEvent (T : Tab) (tbl : List (List Nat × Int)) (e : List String) : Option (String × Option String) :=
  match splitAt ":" e with
  | ["rub" :: s, [r]] =>
    match st? s, int? r with
    | some s, some r =>
      if !validB T s then none else if rubOkAt T s r then some ("srflp-rub", none)
      else
        -- a violation that disappears when the ratios are compared exactly is due to the rounding of the ratios to `f32`
        let f32 := match rubExactRatio? T s with | some r' => rubOkAt T s r' | none => false
        some (if f32 then "srflp-rub-f32" else "srflp-rub", some (s!"fast_upper_bound of the state `{showSt s}` is {r} but a completion is worth {showE (bestRem T s)}: the rough upper bound is not admissible"
          ++ (if f32 then s!" (two ratios cut/length that differ are equal as f32 and get ordered the wrong way; with exactly compared ratios the bound would be {showOI (rubExactRatio? T s)})" else "")))
    | _, _ => none
  | ["rx" :: _, dst, m, _, [c], [r]] =>
    match st? dst, st? m, int? c, int? r with
    | some dst, some m, some c, some r =>
      if !(validB T dst || dst.depth == T.n) then none else if mergeOkAt T dst m c r then some ("srflp-merge", none)
      else some ("srflp-merge",
        some s!"`{showSt dst}` (value-to-go {showE (bestRem T dst)}, arc cost {c}) merged into `{showSt m}` (value-to-go {showE (bestRem T m)}, relaxed arc cost {r}): merge/relax do not over-approximate")
    | _, _, _, _ => none
  | ["pv" :: s, [v], decs] =>
    match st? s, int? v, ints? decs with
    | some s, some v, some decs =>
      let dp := printed2 T v (bestRem T s)
      let spec := specBestExt tbl decs
      if spec == dp then some ("srflp-exact", none)
      else some ("srflp-exact", some s!"after the decisions {decs} (value {v}, state `{showSt s}`) twice the objective the DP model reaches at best is {showE dp}, the specification says {showE spec}: the DP model is not exact")
    | _, _, _ => none
  | _ => none

end SrflpE

/-- case: `srflp | n l(n) c(n*n) | walks seed style` (style bit 8: the reader adds the clearance) -/
def srflpCase (toks opts : List String) (i : List String) : Option Res := do
    let t ← ints? toks
    let o ← ints? opts
    match t, o with
    | n :: rest, [_, _, style] =>
      if n < 1 then none else
      let n := n.toNat
      if rest.length ≠ n + n * n then none else
      let lens := rest.take n
      let flows ← Ddo.Examples.Util.rows? n n (rest.drop n)
      if i == ["panic"] then
        pure { agree := false, phi := false, model := "-", note := "F:C16 [C16:srflp model functions panic]" }
      else
      let evs := ((splitAt ";" i).filter (· ≠ [])).eraseDups
      let T := SrflpModel.tabOf n lens flows (style.toNat / 8 % 2 == 1)
      let tbl := SrflpModel.specTable T
      let inDom := SrflpModel.inDomainB T
      let mut bad : List String := []
      let mut viol : List (String × String) := []
      let mut checked : List String := []
      for e in evs do
        match SrflpE.checkEvent T e with
        | none => bad := bad ++ [s!"unreadable event `{join e}`"]
        | some (true, _) => pure ()
        | some (false, m) => bad := bad ++ [s!"`{join e}`: the model says {m}"]
        match SrflpE.phiEvent T tbl e with
        | none => pure ()
        | some (k, none) => checked := checked ++ [k]
        | some (k, some v) => checked := checked ++ [k]; viol := viol ++ [(k, v)]
      let merges := evs.filter (fun e => e.head? == some "mg")
      let big := merges.filter (fun e => (e.filter (· == ",")).length ≥ 2)
      let phi := viol.isEmpty || !inDom
      let cnt := fun (l : List String) (k : String) => (l.filter (· == k)).length
      let checked2 := checked.map (fun k => if k == "srflp-rub-f32" then "srflp-rub" else k)
      let kinds := ["srflp-rub", "srflp-merge", "srflp-exact"]
      let chk := join (kinds.map (fun k => toString (cnt checked2 k)))
      let vk := join ((kinds ++ ["srflp-rub-f32"]).map (fun k => toString (cnt (viol.map (·.1)) k)))
      pure { agree := bad.isEmpty, phi := phi,
             model := s!"events {evs.length} merges {merges.length} of3+ {big.length} orders {tbl.length} checked(rub,merge,exact) {chk}{if inDom then "" else " ood"}{if viol.isEmpty then "" else s!" violations(rub,merge,exact,rub-f32) {vk}"}",
             note := (match (match viol.find? (fun v => v.1 ≠ "srflp-rub-f32") with | some v => some v | none => viol.head?) with
                      | none => ""
                      | some v => if inDom then s!"F:C16 [C16:{v.1}: {v.2}]" else "")
                     ++ (if bad.isEmpty then "" else " D:exmodel " ++ (bad.head?.getD "")) }
    | _, _ => none

end Ddo.Engines
