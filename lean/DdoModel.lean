-- Root of the `DdoModel` library: models, engines, proofs and property theorems.
import DdoModel.Basic
import DdoModel.Proto
import DdoModel.Gap
import DdoModel.Width
import DdoModel.Engines.Small
import DdoModel.Cache
import DdoModel.Dominance
import DdoModel.Engines.Store
import DdoModel.Proofs.Cache
import DdoModel.Proofs.Dominance
import DdoModel.Props.C10
import DdoModel.Props.C13
import DdoModel.Props.C17
import DdoModel.Props.C18
import DdoModel.Fringe
import DdoModel.Engines.Fringe
