-- Root of the `DdoModel` library: models, engines, proofs and property theorems.
import DdoModel.Basic
import DdoModel.Proto
import DdoModel.Gap
import DdoModel.Width
import DdoModel.Engines.Small
